package vlib

import "testing"

func TestRefSelf(t *testing.T) {
	if err := RefSelfTest(); err != nil {
		t.Fatal(err)
	}
}
