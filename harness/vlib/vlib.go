// Package vlib is the small shared runtime of the /verif harness files: it drives a property with
// pgregory.net/rapid, keeps the measured evidence counters, classifies failures against the committed
// known-findings file, and writes shrunk failing cases as plain JSON replay files that are re-executed
// without rapid.
package vlib

import (
	"crypto/sha256"
	"encoding/binary"
	"encoding/json"
	"flag"
	"fmt"
	"os"
	"path/filepath"
	"regexp"
	"runtime/debug"
	"sort"
	"strconv"
	"strings"
	"sync"
	"testing"

	"pgregory.net/rapid"
)

// Failure is a property verdict produced by an oracle. Sig is a short stable signature of *what* failed
// (used for known-finding matching and replay file names); Msg is the human text.
type Failure struct {
	Sig string `json:"sig"`
	Msg string `json:"msg"`
}

func Failf(sig, format string, a ...interface{}) *Failure {
	return &Failure{Sig: sig, Msg: fmt.Sprintf(format, a...)}
}

func (f *Failure) Error() string { return f.Sig + ": " + f.Msg }

// Ctx is handed to every execution of a case; the case body reports labels and non-triviality.
type Ctx struct {
	labels map[string]int
	nt     bool
	Replay bool // true when executing a saved replay (no rapid)
	notes  []string
}

func (c *Ctx) Label(l string)                   { c.labels[l]++ }
func (c *Ctx) LabelN(l string, n int)           { c.labels[l] += n }
func (c *Ctx) NonTrivial()                      { c.nt = true }
func (c *Ctx) Notef(f string, a ...interface{}) { c.notes = append(c.notes, fmt.Sprintf(f, a...)) }

// Spec describes one generated check.
type Spec[P any] struct {
	Prop  string  // "C19"
	Name  string  // sub-check name, e.g. "store-vs-model"
	Rule  string  // non-triviality rule text (goes to the evidence file)
	Scale float64 // multiplier on the tier's base case count (default 1)
	Min   int     // minimal number of cases
	Gen   func(t *rapid.T) P
	Run   func(p P, c *Ctx) *Failure
	// Exclude, when set, is consulted before a generated case runs: cases for which it returns a non-empty
	// known-finding signature (open in known_findings.json) are withheld by construction and counted.
	Exclude func(p P) string
	// NoShrink: for schedule-dependent checks. The first failure is recorded (replay = the generated case) and
	// generation stops; rapid's shrinker, which needs deterministic failures, is not used.
	NoShrink bool
}

type subStats struct {
	Name        string                 `json:"name"`
	Rule        string                 `json:"rule"`
	Evaluations int                    `json:"evaluations"`
	NonTrivial  int                    `json:"nontrivial"`
	Labels      map[string]int         `json:"labels"`
	Samples     []json.RawMessage      `json:"samples"`
	Excluded    map[string]int         `json:"excluded_known"`
	Requested   int                    `json:"requested"`
	Extra       map[string]interface{} `json:"extra,omitempty"`
}

type outFile struct {
	Prop     string      `json:"prop"`
	Subs     []*subStats `json:"subs"`
	NTHashes []string    `json:"nt_hashes"`
	Failures []failRec   `json:"failures"`
	Known    []string    `json:"known_reproduced"`
	Notes    []string    `json:"notes"`
}

type failRec struct {
	Prop   string `json:"prop"`
	Name   string `json:"name"`
	Sig    string `json:"sig"`
	Msg    string `json:"msg"`
	Replay string `json:"replay"`
}

var (
	mu    sync.Mutex
	out   outFile
	ntSet = map[uint64]struct{}{}
	ntCap = 400000
)

// ---------------------------------------------------------------------------------------------------
// known findings

type KnownEntry struct {
	Property  string `json:"property"`
	ID        string `json:"id"`
	Status    string `json:"status"`
	Signature string `json:"signature"`
	Witness   string `json:"witness,omitempty"`
	What      string `json:"what"`
	Commit    string `json:"commit,omitempty"`
}

var (
	knownOnce sync.Once
	known     []KnownEntry
)

func loadKnown() {
	knownOnce.Do(func() {
		p := os.Getenv("VERIF_KNOWN")
		if p == "" {
			return
		}
		b, err := os.ReadFile(p)
		if err != nil {
			return
		}
		var f struct {
			Findings []KnownEntry `json:"findings"`
		}
		if json.Unmarshal(b, &f) == nil {
			known = f.Findings
		}
	})
}

// IsKnown reports whether sig matches an *open* known finding of prop. A signature in the file may end in
// '*' (prefix match). With VERIF_IGNORE_KNOWN=1 nothing is known (used for witness replays).
func IsKnown(prop, sig string) bool {
	if os.Getenv("VERIF_IGNORE_KNOWN") == "1" {
		return false
	}
	loadKnown()
	for _, k := range known {
		if k.Property != prop || k.Status != "open" {
			continue
		}
		if k.Signature == sig {
			return true
		}
		if strings.HasSuffix(k.Signature, "*") && strings.HasPrefix(sig, strings.TrimSuffix(k.Signature, "*")) {
			return true
		}
	}
	return false
}

// ---------------------------------------------------------------------------------------------------

func Tier() string {
	if t := os.Getenv("VERIF_TIER"); t != "" {
		return t
	}
	return "quick"
}

func Thorough() bool { return Tier() == "thorough" }

func baseChecks() int {
	if s := os.Getenv("VERIF_CHECKS"); s != "" {
		if n, err := strconv.Atoi(s); err == nil && n > 0 {
			return n
		}
	}
	return 100
}

// Seed returns the per-process PRNG seed handed over by the driver (never 0).
func Seed() uint64 {
	if s := os.Getenv("VERIF_RAPID_SEED"); s != "" {
		if n, err := strconv.ParseUint(s, 10, 64); err == nil && n != 0 {
			return n
		}
	}
	return 0x5eed
}

func sub(prop, name, rule string) *subStats {
	mu.Lock()
	defer mu.Unlock()
	if out.Prop == "" {
		out.Prop = prop
	}
	for _, s := range out.Subs {
		if s.Name == name {
			return s
		}
	}
	s := &subStats{Name: name, Rule: rule, Labels: map[string]int{}, Excluded: map[string]int{}}
	out.Subs = append(out.Subs, s)
	return s
}

func hash64(b []byte) uint64 {
	h := sha256.Sum256(b)
	return binary.LittleEndian.Uint64(h[:8])
}

func flush() {
	p := os.Getenv("VERIF_OUT")
	if p == "" {
		return
	}
	out.NTHashes = out.NTHashes[:0]
	for h := range ntSet {
		out.NTHashes = append(out.NTHashes, strconv.FormatUint(h, 16))
	}
	sort.Strings(out.NTHashes)
	b, _ := json.Marshal(&out)
	tmp := p + ".tmp"
	if os.WriteFile(tmp, b, 0o644) == nil {
		os.Rename(tmp, p)
	}
}

// Flush writes the statistics file (called automatically by Check/Replay; exported for custom tests).
func Flush() { mu.Lock(); defer mu.Unlock(); flush() }

var slugRe = regexp.MustCompile(`[^A-Za-z0-9_.=-]+`)

func slug(s string) string {
	s = slugRe.ReplaceAllString(s, "_")
	if len(s) > 80 {
		s = s[:80]
	}
	return s
}

type replayFile struct {
	Property string          `json:"property"`
	Check    string          `json:"check"`
	Sig      string          `json:"sig"`
	Msg      string          `json:"msg"`
	Seed     uint64          `json:"seed"`
	Case     json.RawMessage `json:"case"`
}

func saveReplay(prop, name string, f *Failure, caseJSON []byte) string {
	dir := os.Getenv("VERIF_REPLAY_DIR")
	if dir == "" {
		dir = "."
	}
	dir = filepath.Join(dir, prop)
	os.MkdirAll(dir, 0o755)
	path := filepath.Join(dir, slug(name+"--"+f.Sig)+".json")
	b, _ := json.MarshalIndent(&replayFile{Property: prop, Check: name, Sig: f.Sig, Msg: f.Msg, Seed: Seed(), Case: caseJSON}, "", " ")
	os.WriteFile(path, b, 0o644)
	return path
}

// NewCtx returns a context for executions that are not driven by Check/Replay (native fuzz targets).
func NewCtx() *Ctx { return &Ctx{labels: map[string]int{}} }

// SaveReplay writes a failing case as a plain replay file of the named sub-check and returns its path.
func SaveReplay(prop, name string, f *Failure, c interface{}) string {
	cj, _ := json.Marshal(c)
	return saveReplay(prop, name, f, cj)
}

func writeInflight(prop, name string, caseJSON []byte) {
	p := os.Getenv("VERIF_INFLIGHT")
	if p == "" {
		return
	}
	b, _ := json.Marshal(&replayFile{Property: prop, Check: name, Sig: "process-death", Msg: "case in flight when the process died", Seed: Seed(), Case: caseJSON})
	os.WriteFile(p, b, 0o644)
}

// RepoPanicSig turns a recovered panic into a failure signature naming the first repository frame.
func RepoPanicSig(r interface{}, stack []byte) *Failure {
	frame := "unknown"
	for _, ln := range strings.Split(string(stack), "\n") {
		ln = strings.TrimSpace(ln)
		if strings.HasPrefix(ln, "massnet.org/mass/") && !strings.Contains(ln, "vf") && !strings.Contains(ln, "Vf") {
			if i := strings.LastIndex(ln, "("); i > 0 {
				ln = ln[:i]
			}
			frame = strings.TrimPrefix(ln, "massnet.org/mass/")
			break
		}
	}
	return Failf("panic:"+frame, "panic: %v\n%s", r, stack)
}

// Guard runs f and converts a panic into a Failure.
func Guard(f func() *Failure) (res *Failure) {
	defer func() {
		if r := recover(); r != nil {
			res = RepoPanicSig(r, debug.Stack())
		}
	}()
	return f()
}

func runOne[P any](s *Spec[P], st *subStats, p P, replay bool) (*Failure, []byte) {
	cj, err := json.Marshal(p)
	if err != nil {
		panic("vlib: case not serialisable: " + err.Error())
	}
	if !replay {
		writeInflight(s.Prop, s.Name, cj)
	}
	c := &Ctx{labels: map[string]int{}, Replay: replay}
	f := Guard(func() *Failure { return s.Run(p, c) })
	mu.Lock()
	defer mu.Unlock()
	if !frozen(s.Prop, s.Name) {
		st.Evaluations++
		for k, v := range c.labels {
			st.Labels[k] += v
		}
		if c.nt {
			st.NonTrivial++
			if len(ntSet) < ntCap {
				ntSet[hash64(append([]byte(s.Name+"|"), cj...))] = struct{}{}
			}
		}
		if len(st.Samples) < 3 || (c.nt && len(st.Samples) < 6) {
			sj := cj
			if len(sj) > 6000 {
				sj, _ = json.Marshal(string(cj[:6000]) + "…(truncated)")
			}
			st.Samples = append(st.Samples, json.RawMessage(sj))
		}
		if len(c.notes) > 0 && len(out.Notes) < 20 {
			out.Notes = append(out.Notes, c.notes...)
		}
	}
	return f, cj
}

var frozenSubs = map[string]bool{}

func frozen(prop, name string) bool { return frozenSubs[prop+"/"+name] }

// Check drives the spec with rapid. The case count is VERIF_CHECKS*Scale (at least Min).
func Check[P any](t *testing.T, s Spec[P]) {
	if os.Getenv("VERIF_REPLAY") != "" {
		t.Skip("replay mode")
	}
	if s.Scale == 0 {
		s.Scale = 1
	}
	n := int(float64(baseChecks()) * s.Scale)
	if n < s.Min {
		n = s.Min
	}
	if n < 1 {
		n = 1
	}
	flag.Set("rapid.checks", strconv.Itoa(n))
	flag.Set("rapid.seed", strconv.FormatUint(Seed(), 10))
	flag.Set("rapid.nofailfile", "true")
	st := sub(s.Prop, s.Name, s.Rule)
	st.Requested = n
	var last *failRec
	defer func() {
		mu.Lock()
		if last != nil {
			out.Failures = append(out.Failures, *last)
		}
		flush()
		mu.Unlock()
	}()
	stopped := false
	defer func() {
		if s.NoShrink && last != nil {
			t.Errorf("VERIF-FAIL property=%s check=%s sig=%s: %s", s.Prop, s.Name, last.Sig, trunc(last.Msg, 2000))
		}
	}()
	rapid.Check(t, func(rt *rapid.T) {
		if stopped {
			return
		}
		p := s.Gen(rt)
		if s.Exclude != nil {
			if sig := s.Exclude(p); sig != "" && IsKnown(s.Prop, sig) {
				mu.Lock()
				st.Excluded[sig]++
				mu.Unlock()
				return
			}
		}
		f, cj := runOne(&s, st, p, false)
		if f == nil {
			return
		}
		if IsKnown(s.Prop, f.Sig) {
			mu.Lock()
			if !frozen(s.Prop, s.Name) {
				st.Excluded[f.Sig]++
			}
			mu.Unlock()
			return
		}
		mu.Lock()
		frozenSubs[s.Prop+"/"+s.Name] = true
		mu.Unlock()
		path := saveReplay(s.Prop, s.Name, f, cj)
		last = &failRec{Prop: s.Prop, Name: s.Name, Sig: f.Sig, Msg: trunc(f.Msg, 4000), Replay: path}
		if s.NoShrink {
			stopped = true
			return
		}
		rt.Fatalf("VERIF-FAIL property=%s check=%s sig=%s: %s", s.Prop, s.Name, f.Sig, trunc(f.Msg, 2000))
	})
}

func trunc(s string, n int) string {
	if len(s) > n {
		return s[:n] + "…"
	}
	return s
}

// Replay re-executes the saved case(s) named by VERIF_REPLAY (a file, or a directory of *.json files) that
// belong to this spec (plain test, no rapid).
func Replay[P any](t *testing.T, s Spec[P]) {
	path := os.Getenv("VERIF_REPLAY")
	if path == "" {
		t.Skip("no VERIF_REPLAY")
	}
	files := []string{path}
	if fi, err := os.Stat(path); err == nil && fi.IsDir() {
		files, _ = filepath.Glob(filepath.Join(path, "*.json"))
		sort.Strings(files)
	}
	for _, f := range files {
		replayOne(t, s, f)
	}
}

func replayOne[P any](t *testing.T, s Spec[P], path string) {
	b, err := os.ReadFile(path)
	if err != nil {
		t.Fatalf("read replay: %v", err)
	}
	var rf replayFile
	if err := json.Unmarshal(b, &rf); err != nil {
		t.Fatalf("parse replay %s: %v", path, err)
	}
	if rf.Property != s.Prop || rf.Check != s.Name {
		return
	}
	var p P
	if err := json.Unmarshal(rf.Case, &p); err != nil {
		t.Fatalf("parse case %s: %v", path, err)
	}
	st := sub(s.Prop, s.Name, s.Rule)
	f, _ := runOne(&s, st, p, true)
	mu.Lock()
	defer mu.Unlock()
	st.Labels["replayed-saved-cases"]++
	if f != nil {
		out.Failures = append(out.Failures, failRec{Prop: s.Prop, Name: s.Name, Sig: f.Sig, Msg: trunc(f.Msg, 4000), Replay: path})
		flush()
		t.Errorf("VERIF-FAIL property=%s check=%s sig=%s replay=%s: %s", s.Prop, s.Name, f.Sig, path, trunc(f.Msg, 2000))
		return
	}
	flush()
}

// Both registers the usual pair: rapid-driven unless VERIF_REPLAY is set, in which case the replay runs.
func Both[P any](t *testing.T, s Spec[P]) {
	if os.Getenv("VERIF_REPLAY") != "" {
		Replay(t, s)
		return
	}
	Check(t, s)
}

// Extra stores an additional measured value in the sub-check's statistics.
func Extra(prop, name, key string, v interface{}) {
	st := sub(prop, name, "")
	mu.Lock()
	defer mu.Unlock()
	if st.Extra == nil {
		st.Extra = map[string]interface{}{}
	}
	st.Extra[key] = v
	flush()
}

// ReportFailure lets custom (non-rapid) tests register a verdict with a replay payload.
func ReportFailure(t *testing.T, prop, name string, f *Failure, payload interface{}) {
	cj, _ := json.Marshal(payload)
	if IsKnown(prop, f.Sig) {
		st := sub(prop, name, "")
		mu.Lock()
		st.Excluded[f.Sig]++
		flush()
		mu.Unlock()
		return
	}
	path := saveReplay(prop, name, f, cj)
	mu.Lock()
	out.Failures = append(out.Failures, failRec{Prop: prop, Name: name, Sig: f.Sig, Msg: trunc(f.Msg, 4000), Replay: path})
	flush()
	mu.Unlock()
	t.Errorf("VERIF-FAIL property=%s check=%s sig=%s: %s", prop, name, f.Sig, trunc(f.Msg, 2000))
}

// Count adds to the evaluation counters of a custom test.
func Count(prop, name, rule string, evals int, ntKeys []string, labels map[string]int, samples []interface{}) {
	st := sub(prop, name, rule)
	mu.Lock()
	defer mu.Unlock()
	st.Evaluations += evals
	st.NonTrivial += len(ntKeys)
	for _, k := range ntKeys {
		if len(ntSet) < ntCap {
			ntSet[hash64([]byte(name+"|"+k))] = struct{}{}
		}
	}
	for k, v := range labels {
		st.Labels[k] += v
	}
	for _, s := range samples {
		if len(st.Samples) < 6 {
			b, _ := json.Marshal(s)
			st.Samples = append(st.Samples, b)
		}
	}
	flush()
}

// ReplayMode reports whether the process was started to re-execute saved cases.
func ReplayMode() bool { return os.Getenv("VERIF_REPLAY") != "" }
