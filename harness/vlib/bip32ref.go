package vlib

// Independent reference implementations used as oracles (DESIGN.md §3.2): secp256k1 in affine math/big
// arithmetic, BIP32 (CKDpriv, CKDpub, serialisation, fingerprint) written from the BIP text, base58check, and
// the BIP39 entropy<->word-index packing. The reference validates itself against the published BIP32 test
// vectors 1-4 (RefSelfTest) before any verdict is taken from it.

import (
	"bytes"
	"crypto/hmac"
	"crypto/sha256"
	"crypto/sha512"
	"encoding/binary"
	"encoding/hex"
	"errors"
	"fmt"
	"math/big"

	"golang.org/x/crypto/ripemd160"
)

var (
	secP, _  = new(big.Int).SetString("FFFFFFFFFFFFFFFFFFFFFFFFFFFFFFFFFFFFFFFFFFFFFFFFFFFFFFFEFFFFFC2F", 16)
	secN, _  = new(big.Int).SetString("FFFFFFFFFFFFFFFFFFFFFFFFFFFFFFFEBAAEDCE6AF48A03BBFD25E8CD0364141", 16)
	secGx, _ = new(big.Int).SetString("79BE667EF9DCBBAC55A06295CE870B07029BFCDB2DCE28D959F2815B16F81798", 16)
	secGy, _ = new(big.Int).SetString("483ADA7726A3C4655DA4FBFC0E1108A8FD17B448A68554199C47D08FFB10D4B8", 16)
)

// RefN returns the group order.
func RefN() *big.Int { return new(big.Int).Set(secN) }

type refPoint struct{ X, Y *big.Int } // nil X = infinity

func refAdd(a, b refPoint) refPoint {
	if a.X == nil {
		return b
	}
	if b.X == nil {
		return a
	}
	var l *big.Int
	if a.X.Cmp(b.X) == 0 {
		if new(big.Int).Mod(new(big.Int).Add(a.Y, b.Y), secP).Sign() == 0 {
			return refPoint{}
		}
		// doubling: l = 3x^2 / 2y
		num := new(big.Int).Mul(a.X, a.X)
		num.Mul(num, big.NewInt(3))
		den := new(big.Int).Lsh(a.Y, 1)
		den.ModInverse(den, secP)
		l = num.Mul(num, den)
	} else {
		num := new(big.Int).Sub(b.Y, a.Y)
		den := new(big.Int).Sub(b.X, a.X)
		den.Mod(den, secP)
		den.ModInverse(den, secP)
		l = num.Mul(num, den)
	}
	l.Mod(l, secP)
	x := new(big.Int).Mul(l, l)
	x.Sub(x, a.X)
	x.Sub(x, b.X)
	x.Mod(x, secP)
	y := new(big.Int).Sub(a.X, x)
	y.Mul(y, l)
	y.Sub(y, a.Y)
	y.Mod(y, secP)
	return refPoint{x, y}
}

func refMulG(k *big.Int) refPoint {
	r := refPoint{}
	add := refPoint{new(big.Int).Set(secGx), new(big.Int).Set(secGy)}
	for i := 0; i < k.BitLen(); i++ {
		if k.Bit(i) == 1 {
			r = refAdd(r, add)
		}
		add = refAdd(add, add)
	}
	return r
}

func refSerP(p refPoint) []byte {
	out := make([]byte, 33)
	out[0] = 2 + byte(p.Y.Bit(0))
	p.X.FillBytes(out[1:])
	return out
}

func refParseP(b []byte) (refPoint, error) {
	if len(b) != 33 || (b[0] != 2 && b[0] != 3) {
		return refPoint{}, errors.New("bad compressed point")
	}
	x := new(big.Int).SetBytes(b[1:])
	if x.Cmp(secP) >= 0 {
		return refPoint{}, errors.New("x out of range")
	}
	y2 := new(big.Int).Exp(x, big.NewInt(3), secP)
	y2.Add(y2, big.NewInt(7))
	y2.Mod(y2, secP)
	e := new(big.Int).Add(secP, big.NewInt(1))
	e.Rsh(e, 2)
	y := new(big.Int).Exp(y2, e, secP)
	if new(big.Int).Exp(y, big.NewInt(2), secP).Cmp(y2) != 0 {
		return refPoint{}, errors.New("not on curve")
	}
	if y.Bit(0) != uint(b[0]&1) {
		y.Sub(secP, y)
	}
	return refPoint{x, y}, nil
}

// RefPubFromScalar returns the compressed public key of a private scalar.
func RefPubFromScalar(d *big.Int) []byte { return refSerP(refMulG(d)) }

func RefHash160(b []byte) []byte {
	s := sha256.Sum256(b)
	r := ripemd160.New()
	r.Write(s[:])
	return r.Sum(nil)
}

const b58 = "123456789ABCDEFGHJKLMNPQRSTUVWXYZabcdefghijkmnopqrstuvwxyz"

func RefBase58(b []byte) string {
	x := new(big.Int).SetBytes(b)
	var out []byte
	m := new(big.Int)
	r58 := big.NewInt(58)
	for x.Sign() > 0 {
		x.DivMod(x, r58, m)
		out = append(out, b58[m.Int64()])
	}
	for _, c := range b {
		if c != 0 {
			break
		}
		out = append(out, '1')
	}
	for i, j := 0, len(out)-1; i < j; i, j = i+1, j-1 {
		out[i], out[j] = out[j], out[i]
	}
	return string(out)
}

// RefKey is a BIP32 extended key of the reference implementation.
type RefKey struct {
	Priv     *big.Int // nil for a public key
	Pub      []byte   // compressed public key
	Chain    []byte
	Depth    byte
	ParentFP []byte
	ChildNum uint32
}

var ErrRefInvalidChild = errors.New("reference: invalid child (I_L out of range or point at infinity)")

func RefMaster(seed []byte) (*RefKey, error) {
	if len(seed) < 16 || len(seed) > 64 {
		return nil, errors.New("reference: seed length")
	}
	h := hmac.New(sha512.New, []byte("Bitcoin seed"))
	h.Write(seed)
	I := h.Sum(nil)
	d := new(big.Int).SetBytes(I[:32])
	if d.Sign() == 0 || d.Cmp(secN) >= 0 {
		return nil, errors.New("reference: unusable seed")
	}
	return &RefKey{Priv: d, Pub: RefPubFromScalar(d), Chain: I[32:], ParentFP: []byte{0, 0, 0, 0}}, nil
}

// Child derives child i. With legacyShortKey the hardened derivation reproduces the well-known deviation of
// old btcsuite-style code: a private key with leading zero bytes is copied left-aligned (unpadded) after the
// 0x00 marker instead of as ser256(k).
func (k *RefKey) Child(i uint32, legacyShortKey bool) (*RefKey, error) {
	if k.Depth == 255 {
		return nil, errors.New("reference: depth")
	}
	hardened := i >= 0x80000000
	data := make([]byte, 37)
	if hardened {
		if k.Priv == nil {
			return nil, errors.New("reference: hardened from public")
		}
		if legacyShortKey {
			copy(data[1:], k.Priv.Bytes())
		} else {
			k.Priv.FillBytes(data[1:33])
		}
	} else {
		copy(data, k.Pub)
	}
	binary.BigEndian.PutUint32(data[33:], i)
	h := hmac.New(sha512.New, k.Chain)
	h.Write(data)
	I := h.Sum(nil)
	il := new(big.Int).SetBytes(I[:32])
	if il.Cmp(secN) >= 0 {
		return nil, ErrRefInvalidChild
	}
	c := &RefKey{Chain: I[32:], Depth: k.Depth + 1, ParentFP: RefHash160(k.Pub)[:4], ChildNum: i}
	if k.Priv != nil {
		d := new(big.Int).Add(il, k.Priv)
		d.Mod(d, secN)
		if d.Sign() == 0 {
			return nil, ErrRefInvalidChild
		}
		c.Priv = d
		c.Pub = RefPubFromScalar(d)
	} else {
		pp, err := refParseP(k.Pub)
		if err != nil {
			return nil, err
		}
		q := refAdd(refMulG(il), pp)
		if q.X == nil {
			return nil, ErrRefInvalidChild
		}
		c.Pub = refSerP(q)
	}
	return c, nil
}

func (k *RefKey) Neuter() *RefKey {
	return &RefKey{Pub: k.Pub, Chain: k.Chain, Depth: k.Depth, ParentFP: k.ParentFP, ChildNum: k.ChildNum}
}

// String serialises with the given version bytes (private version for private keys, public otherwise).
func (k *RefKey) String(privVer, pubVer []byte) string {
	b := make([]byte, 0, 82)
	if k.Priv != nil {
		b = append(b, privVer...)
	} else {
		b = append(b, pubVer...)
	}
	b = append(b, k.Depth)
	b = append(b, k.ParentFP...)
	var cn [4]byte
	binary.BigEndian.PutUint32(cn[:], k.ChildNum)
	b = append(b, cn[:]...)
	b = append(b, k.Chain...)
	if k.Priv != nil {
		kb := make([]byte, 33)
		k.Priv.FillBytes(kb[1:])
		b = append(b, kb...)
	} else {
		b = append(b, k.Pub...)
	}
	h1 := sha256.Sum256(b)
	h2 := sha256.Sum256(h1[:])
	b = append(b, h2[:4]...)
	return RefBase58(b)
}

var (
	RefXprv = []byte{0x04, 0x88, 0xad, 0xe4}
	RefXpub = []byte{0x04, 0x88, 0xb2, 0x1e}
)

type refVec struct {
	seed string
	path []uint32
	pub  string
	priv string
}

const hs = 0x80000000

// Published BIP32 test vectors (BIP-0032, "Test vector 1".."Test vector 4").
var refVectors = []refVec{
	{"000102030405060708090a0b0c0d0e0f", nil, "xpub661MyMwAqRbcFtXgS5sYJABqqG9YLmC4Q1Rdap9gSE8NqtwybGhePY2gZ29ESFjqJoCu1Rupje8YtGqsefD265TMg7usUDFdp6W1EGMcet8", "xprv9s21ZrQH143K3QTDL4LXw2F7HEK3wJUD2nW2nRk4stbPy6cq3jPPqjiChkVvvNKmPGJxWUtg6LnF5kejMRNNU3TGtRBeJgk33yuGBxrMPHi"},
	{"000102030405060708090a0b0c0d0e0f", []uint32{hs}, "xpub68Gmy5EdvgibQVfPdqkBBCHxA5htiqg55crXYuXoQRKfDBFA1WEjWgP6LHhwBZeNK1VTsfTFUHCdrfp1bgwQ9xv5ski8PX9rL2dZXvgGDnw", "xprv9uHRZZhk6KAJC1avXpDAp4MDc3sQKNxDiPvvkX8Br5ngLNv1TxvUxt4cV1rGL5hj6KCesnDYUhd7oWgT11eZG7XnxHrnYeSvkzY7d2bhkJ7"},
	{"000102030405060708090a0b0c0d0e0f", []uint32{hs, 1}, "xpub6ASuArnXKPbfEwhqN6e3mwBcDTgzisQN1wXN9BJcM47sSikHjJf3UFHKkNAWbWMiGj7Wf5uMash7SyYq527Hqck2AxYysAA7xmALppuCkwQ", "xprv9wTYmMFdV23N2TdNG573QoEsfRrWKQgWeibmLntzniatZvR9BmLnvSxqu53Kw1UmYPxLgboyZQaXwTCg8MSY3H2EU4pWcQDnRnrVA1xe8fs"},
	{"000102030405060708090a0b0c0d0e0f", []uint32{hs, 1, hs + 2}, "xpub6D4BDPcP2GT577Vvch3R8wDkScZWzQzMMUm3PWbmWvVJrZwQY4VUNgqFJPMM3No2dFDFGTsxxpG5uJh7n7epu4trkrX7x7DogT5Uv6fcLW5", "xprv9z4pot5VBttmtdRTWfWQmoH1taj2axGVzFqSb8C9xaxKymcFzXBDptWmT7FwuEzG3ryjH4ktypQSAewRiNMjANTtpgP4mLTj34bhnZX7UiM"},
	{"000102030405060708090a0b0c0d0e0f", []uint32{hs, 1, hs + 2, 2}, "xpub6FHa3pjLCk84BayeJxFW2SP4XRrFd1JYnxeLeU8EqN3vDfZmbqBqaGJAyiLjTAwm6ZLRQUMv1ZACTj37sR62cfN7fe5JnJ7dh8zL4fiyLHV", "xprvA2JDeKCSNNZky6uBCviVfJSKyQ1mDYahRjijr5idH2WwLsEd4Hsb2Tyh8RfQMuPh7f7RtyzTtdrbdqqsunu5Mm3wDvUAKRHSC34sJ7in334"},
	{"000102030405060708090a0b0c0d0e0f", []uint32{hs, 1, hs + 2, 2, 1000000000}, "xpub6H1LXWLaKsWFhvm6RVpEL9P4KfRZSW7abD2ttkWP3SSQvnyA8FSVqNTEcYFgJS2UaFcxupHiYkro49S8yGasTvXEYBVPamhGW6cFJodrTHy", "xprvA41z7zogVVwxVSgdKUHDy1SKmdb533PjDz7J6N6mV6uS3ze1ai8FHa8kmHScGpWmj4WggLyQjgPie1rFSruoUihUZREPSL39UNdE3BBDu76"},
	{"fffcf9f6f3f0edeae7e4e1dedbd8d5d2cfccc9c6c3c0bdbab7b4b1aeaba8a5a29f9c999693908d8a8784817e7b7875726f6c696663605d5a5754514e4b484542", nil, "xpub661MyMwAqRbcFW31YEwpkMuc5THy2PSt5bDMsktWQcFF8syAmRUapSCGu8ED9W6oDMSgv6Zz8idoc4a6mr8BDzTJY47LJhkJ8UB7WEGuduB", "xprv9s21ZrQH143K31xYSDQpPDxsXRTUcvj2iNHm5NUtrGiGG5e2DtALGdso3pGz6ssrdK4PFmM8NSpSBHNqPqm55Qn3LqFtT2emdEXVYsCzC2U"},
	{"fffcf9f6f3f0edeae7e4e1dedbd8d5d2cfccc9c6c3c0bdbab7b4b1aeaba8a5a29f9c999693908d8a8784817e7b7875726f6c696663605d5a5754514e4b484542", []uint32{0}, "xpub69H7F5d8KSRgmmdJg2KhpAK8SR3DjMwAdkxj3ZuxV27CprR9LgpeyGmXUbC6wb7ERfvrnKZjXoUmmDznezpbZb7ap6r1D3tgFxHmwMkQTPH", "xprv9vHkqa6EV4sPZHYqZznhT2NPtPCjKuDKGY38FBWLvgaDx45zo9WQRUT3dKYnjwih2yJD9mkrocEZXo1ex8G81dwSM1fwqWpWkeS3v86pgKt"},
	{"fffcf9f6f3f0edeae7e4e1dedbd8d5d2cfccc9c6c3c0bdbab7b4b1aeaba8a5a29f9c999693908d8a8784817e7b7875726f6c696663605d5a5754514e4b484542", []uint32{0, hs + 2147483647}, "xpub6ASAVgeehLbnwdqV6UKMHVzgqAG8Gr6riv3Fxxpj8ksbH9ebxaEyBLZ85ySDhKiLDBrQSARLq1uNRts8RuJiHjaDMBU4Zn9h8LZNnBC5y4a", "xprv9wSp6B7kry3Vj9m1zSnLvN3xH8RdsPP1Mh7fAaR7aRLcQMKTR2vidYEeEg2mUCTAwCd6vnxVrcjfy2kRgVsFawNzmjuHc2YmYRmagcEPdU9"},
	{"fffcf9f6f3f0edeae7e4e1dedbd8d5d2cfccc9c6c3c0bdbab7b4b1aeaba8a5a29f9c999693908d8a8784817e7b7875726f6c696663605d5a5754514e4b484542", []uint32{0, hs + 2147483647, 1}, "xpub6DF8uhdarytz3FWdA8TvFSvvAh8dP3283MY7p2V4SeE2wyWmG5mg5EwVvmdMVCQcoNJxGoWaU9DCWh89LojfZ537wTfunKau47EL2dhHKon", "xprv9zFnWC6h2cLgpmSA46vutJzBcfJ8yaJGg8cX1e5StJh45BBciYTRXSd25UEPVuesF9yog62tGAQtHjXajPPdbRCHuWS6T8XA2ECKADdw4Ef"},
	{"fffcf9f6f3f0edeae7e4e1dedbd8d5d2cfccc9c6c3c0bdbab7b4b1aeaba8a5a29f9c999693908d8a8784817e7b7875726f6c696663605d5a5754514e4b484542", []uint32{0, hs + 2147483647, 1, hs + 2147483646}, "xpub6ERApfZwUNrhLCkDtcHTcxd75RbzS1ed54G1LkBUHQVHQKqhMkhgbmJbZRkrgZw4koxb5JaHWkY4ALHY2grBGRjaDMzQLcgJvLJuZZvRcEL", "xprvA1RpRA33e1JQ7ifknakTFpgNXPmW2YvmhqLQYMmrj4xJXXWYpDPS3xz7iAxn8L39njGVyuoseXzU6rcxFLJ8HFsTjSyQbLYnMpCqE2VbFWc"},
	{"fffcf9f6f3f0edeae7e4e1dedbd8d5d2cfccc9c6c3c0bdbab7b4b1aeaba8a5a29f9c999693908d8a8784817e7b7875726f6c696663605d5a5754514e4b484542", []uint32{0, hs + 2147483647, 1, hs + 2147483646, 2}, "xpub6FnCn6nSzZAw5Tw7cgR9bi15UV96gLZhjDstkXXxvCLsUXBGXPdSnLFbdpq8p9HmGsApME5hQTZ3emM2rnY5agb9rXpVGyy3bdW6EEgAtqt", "xprvA2nrNbFZABcdryreWet9Ea4LvTJcGsqrMzxHx98MMrotbir7yrKCEXw7nadnHM8Dq38EGfSh6dqA9QWTyefMLEcBYJUuekgW4BYPJcr9E7j"},
	{"4b381541583be4423346c643850da4b320e46a87ae3d2a4e6da11eba819cd4acba45d239319ac14f863b8d5ab5a0d0c64d2e8a1e7d1457df2e5a3c51c73235be", nil, "xpub661MyMwAqRbcEZVB4dScxMAdx6d4nFc9nvyvH3v4gJL378CSRZiYmhRoP7mBy6gSPSCYk6SzXPTf3ND1cZAceL7SfJ1Z3GC8vBgp2epUt13", "xprv9s21ZrQH143K25QhxbucbDDuQ4naNntJRi4KUfWT7xo4EKsHt2QJDu7KXp1A3u7Bi1j8ph3EGsZ9Xvz9dGuVrtHHs7pXeTzjuxBrCmmhgC6"},
	{"4b381541583be4423346c643850da4b320e46a87ae3d2a4e6da11eba819cd4acba45d239319ac14f863b8d5ab5a0d0c64d2e8a1e7d1457df2e5a3c51c73235be", []uint32{hs}, "xpub68NZiKmJWnxxS6aaHmn81bvJeTESw724CRDs6HbuccFQN9Ku14VQrADWgqbhhTHBaohPX4CjNLf9fq9MYo6oDaPPLPxSb7gwQN3ih19Zm4Y", "xprv9uPDJpEQgRQfDcW7BkF7eTya6RPxXeJCqCJGHuCJ4GiRVLzkTXBAJMu2qaMWPrS7AANYqdq6vcBcBUdJCVVFceUvJFjaPdGZ2y9WACViL4L"},
	{"3ddd5602285899a946114506157c7997e5444528f3003f6134712147db19b678", nil, "xpub661MyMwAqRbcGczjuMoRm6dXaLDEhW1u34gKenbeYqAix21mdUKJyuyu5F1rzYGVxyL6tmgBUAEPrEz92mBXjByMRiJdba9wpnN37RLLAXa", "xprv9s21ZrQH143K48vGoLGRPxgo2JNkJ3J3fqkirQC2zVdk5Dgd5w14S7fRDyHH4dWNHUgkvsvNDCkvAwcSHNAQwhwgNMgZhLtQC63zxwhQmRv"},
	{"3ddd5602285899a946114506157c7997e5444528f3003f6134712147db19b678", []uint32{hs}, "xpub69AUMk3qDBi3uW1sXgjCmVjJ2G6WQoYSnNHyzkmdCHEhSZ4tBok37xfFEqHd2AddP56Tqp4o56AePAgCjYdvpW2PU2jbUPFKsav5ut6Ch1m", "xprv9vB7xEWwNp9kh1wQRfCCQMnZUEG21LpbR9NPCNN1dwhiZkjjeGRnaALmPXCX7SgjFTiCTT6bXes17boXtjq3xLpcDjzEuGLQBM5ohqkao9G"},
	{"3ddd5602285899a946114506157c7997e5444528f3003f6134712147db19b678", []uint32{hs, hs + 1}, "xpub6BJA1jSqiukeaesWfxe6sNK9CCGaujFFSJLomWHprUL9DePQ4JDkM5d88n49sMGJxrhpjazuXYWdMf17C9T5XnxkopaeS7jGk1GyyVziaMt", "xprv9xJocDuwtYCMNAo3Zw76WENQeAS6WGXQ55RCy7tDJ8oALr4FWkuVoHJeHVAcAqiZLE7Je3vZJHxspZdFHfnBEjHqU5hG1Jaj32dVoS6XLT1"},
}

// RefSelfTest validates the reference against the published vectors (both private and public strings, and
// public derivation of non-hardened steps). An error means the reference must not be used (exit 2).
func RefSelfTest() error {
	for vi, v := range refVectors {
		seed, _ := hex.DecodeString(v.seed)
		k, err := RefMaster(seed)
		if err != nil {
			return fmt.Errorf("vector %d: %v", vi, err)
		}
		var pubk *RefKey
		for _, i := range v.path {
			parent := k
			if k, err = k.Child(i, false); err != nil {
				return fmt.Errorf("vector %d: %v", vi, err)
			}
			if i < hs {
				if pubk, err = parent.Neuter().Child(i, false); err != nil {
					return fmt.Errorf("vector %d: public derivation: %v", vi, err)
				}
				if !bytes.Equal(pubk.Pub, k.Pub) || !bytes.Equal(pubk.Chain, k.Chain) {
					return fmt.Errorf("vector %d: CKDpub != N(CKDpriv)", vi)
				}
			}
		}
		if got := k.String(RefXprv, RefXpub); got != v.priv {
			return fmt.Errorf("vector %d path %v: xprv %s, published %s", vi, v.path, got, v.priv)
		}
		if got := k.Neuter().String(RefXprv, RefXpub); got != v.pub {
			return fmt.Errorf("vector %d path %v: xpub %s, published %s", vi, v.path, got, v.pub)
		}
	}
	return nil
}

// ---- BIP39 packing ----------------------------------------------------------------------------------

// RefMnemonicIndices returns the 11-bit word indices BIP39 defines for the entropy (ENT in {128..256}, step 32).
func RefMnemonicIndices(entropy []byte) ([]int, error) {
	ent := len(entropy) * 8
	if ent < 128 || ent > 256 || ent%32 != 0 {
		return nil, errors.New("reference: entropy size")
	}
	cs := ent / 32
	h := sha256.Sum256(entropy)
	bits := make([]byte, 0, ent+cs)
	for _, b := range entropy {
		for i := 7; i >= 0; i-- {
			bits = append(bits, (b>>uint(i))&1)
		}
	}
	for i := 0; i < cs; i++ {
		bits = append(bits, (h[i/8]>>uint(7-i%8))&1)
	}
	var out []int
	for i := 0; i < len(bits); i += 11 {
		v := 0
		for j := 0; j < 11; j++ {
			v = v<<1 | int(bits[i+j])
		}
		out = append(out, v)
	}
	return out, nil
}
