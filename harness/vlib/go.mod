module verif/vlib

go 1.23

toolchain go1.23.5

require pgregory.net/rapid v1.3.0
