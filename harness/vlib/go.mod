module verif/vlib

go 1.23

toolchain go1.23.5

require pgregory.net/rapid v1.3.0

require golang.org/x/crypto v0.0.0-20210322153248-0c34fe9e7dc2
