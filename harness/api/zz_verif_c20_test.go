package api

// C20 — the HTTP API admits only configured origins and reports exact values (DESIGN.md §4 C20).

import (
	"bytes"
	"context"
	"encoding/hex"
	"fmt"
	"math/big"
	"net"
	"net/http"
	"net/http/httptest"
	"net/netip"
	"os"
	"path/filepath"
	"regexp"
	"strings"
	"sync"
	"testing"

	"github.com/golang/protobuf/ptypes/empty"
	"github.com/massnetorg/mass-core/logging"
	"github.com/massnetorg/mass-core/massutil"
	"github.com/massnetorg/mass-core/poc/chiapos"
	"github.com/massnetorg/mass-core/poc/pocutil"
	"github.com/massnetorg/mass-core/pocec"
	"massnet.org/mass/config"
	"massnet.org/mass/mining"
	engine "massnet.org/mass/poc/engine"
	engine_v2 "massnet.org/mass/poc/engine.v2"

	"pgregory.net/rapid"
	"verif/vlib"
)

var vfApiOnce sync.Once

func vfApiSetup() {
	vfApiOnce.Do(func() {
		base := os.Getenv("TMPDIR")
		if base == "" {
			base = os.TempDir()
		}
		d := filepath.Join(base, fmt.Sprintf("vfapilog-%d", os.Getpid()))
		os.MkdirAll(d, 0o755)
		logging.Init(d, "vf.log", "error", 0, true)
	})
}

// ---- (a) access control -----------------------------------------------------------------------------

type vfACCase struct {
	Whitelist []string `json:"whitelist"`
	Lans      []string `json:"lans"`
	Remote    string   `json:"remote"`
}

var vfIPs = []string{"127.0.0.1", "127.0.0.2", "127.255.255.255", "::1", "::ffff:127.0.0.1", "::ffff:7f00:1", "0.0.0.0", "::",
	"9.255.255.255", "10.0.0.0", "10.0.0.1", "10.255.255.255", "11.0.0.0",
	"172.15.255.255", "172.16.0.0", "172.16.0.1", "172.31.255.255", "172.32.0.0", "172.0.0.1", "172.200.1.1",
	"192.167.255.255", "192.168.0.0", "192.168.1.77", "192.168.255.255", "192.169.0.0", "192.0.2.1",
	"::ffff:10.1.2.3", "::ffff:172.16.5.5", "::ffff:192.168.1.1", "::ffff:8.8.8.8", "::ffff:a00:1",
	"8.8.8.8", "1.2.3.4", "203.0.113.9", "2001:db8::1", "fe80::1", "fe80::1%eth0", "fc00::1", "64:ff9b::a00:1", "::a00:1", "a00::1", "100.64.0.1", "169.254.1.1", "255.255.255.255"}

func vfGenIP(t *rapid.T, label string) string {
	switch rapid.IntRange(0, 5).Draw(t, label+"Kind") {
	case 0:
		b := rapid.SliceOfN(rapid.Byte(), 4, 4).Draw(t, label+"V4")
		return fmt.Sprintf("%d.%d.%d.%d", b[0], b[1], b[2], b[3])
	case 1:
		// near a private range edge
		pre := rapid.SampledFrom([][2]int{{10, 0}, {172, 16}, {172, 31}, {172, 15}, {172, 32}, {192, 168}, {192, 167}, {192, 169}, {9, 255}, {11, 0}}).Draw(t, label+"Edge")
		return fmt.Sprintf("%d.%d.%d.%d", pre[0], pre[1], rapid.SampledFrom([]int{0, 1, 255}).Draw(t, label+"E3"), rapid.SampledFrom([]int{0, 1, 254, 255}).Draw(t, label+"E4"))
	case 2:
		b := rapid.SliceOfN(rapid.Byte(), 16, 16).Draw(t, label+"V6")
		return netip.AddrFrom16([16]byte(b)).String()
	default:
		return rapid.SampledFrom(vfIPs).Draw(t, label+"Pool")
	}
}

func vfGenAC(t *rapid.T) vfACCase {
	var c vfACCase
	n := rapid.IntRange(0, 4).Draw(t, "nwl")
	for i := 0; i < n; i++ {
		if rapid.IntRange(0, 11).Draw(t, "star") == 0 {
			c.Whitelist = append(c.Whitelist, "*")
		} else {
			ip := vfGenIP(t, "wl")
			ip = strings.SplitN(ip, "%", 2)[0]
			c.Whitelist = append(c.Whitelist, ip)
		}
	}
	c.Lans = rapid.SliceOfNDistinct(rapid.SampledFrom([]string{"10", "172", "192", "junk", "10.0.0.0/8", ""}), 0, 4, func(s string) string { return s }).Draw(t, "lans")
	ip := vfGenIP(t, "remote")
	if len(c.Whitelist) > 0 && rapid.IntRange(0, 3).Draw(t, "hitWl") == 0 {
		ip = c.Whitelist[rapid.IntRange(0, len(c.Whitelist)-1).Draw(t, "wlIdx")]
		if ip == "*" {
			ip = "8.8.4.4"
		}
	}
	port := rapid.SampledFrom([]string{"80", "1", "65535", "54321"}).Draw(t, "port")
	switch rapid.IntRange(0, 14).Draw(t, "form") {
	case 0:
		c.Remote = ip // no port
	case 1:
		c.Remote = ip + ":" + port // v6 without brackets is malformed
	case 2:
		c.Remote = "[" + ip + "]:" + "99999"
	case 3:
		c.Remote = rapid.SampledFrom([]string{"", ":80", "[]:80", "[::1]", "127.0.0.1:", "127.0.0.1:http", "1.2.3:80", "256.1.1.1:80", "010.0.0.1:80", "10.0.0.1.:80", "0x7f.0.0.1:80", "127.1:80", "[::1]:80x", " 127.0.0.1:80", "127.0.0.1 :80", "[::ffff:10.0.0.1%x]:80"}).Draw(t, "junk")
	default:
		if strings.Contains(ip, ":") {
			c.Remote = "[" + ip + "]:" + port
		} else {
			c.Remote = ip + ":" + port
		}
	}
	return c
}

var vfPriv10 = netip.MustParsePrefix("10.0.0.0/8")
var vfPriv172 = netip.MustParsePrefix("172.16.0.0/12")
var vfPriv192 = netip.MustParsePrefix("192.168.0.0/16")

// vfRefAllowed is the decision written from the statement: loopback, whitelisted IP, enabled private range, wildcard.
func vfRefAllowed(c vfACCase) (allowed bool, why string) {
	for _, w := range c.Whitelist {
		if w == "*" {
			return true, "wildcard"
		}
	}
	// the property speaks about the remote *address*; the port part (even an odd one) does not matter
	host, _, err := net.SplitHostPort(c.Remote)
	if err != nil {
		return false, "malformed"
	}
	pa, err := netip.ParseAddr(host)
	if err != nil {
		return false, "malformed"
	}
	a := pa.WithZone("").Unmap()
	if a.IsLoopback() {
		return true, "loopback"
	}
	for _, w := range c.Whitelist {
		if wa, err := netip.ParseAddr(w); err == nil && wa.Unmap() == a {
			return true, "whitelist"
		}
	}
	if a.Is4() {
		for _, l := range c.Lans {
			switch l {
			case "10":
				if vfPriv10.Contains(a) {
					return true, "lan10"
				}
			case "172":
				if vfPriv172.Contains(a) {
					return true, "lan172"
				}
			case "192":
				if vfPriv192.Contains(a) {
					return true, "lan192"
				}
			}
		}
	}
	return false, "none"
}

func vfACRun(c vfACCase, ctx *vlib.Ctx) *vlib.Failure {
	vfApiSetup()
	fn, err := getIPAccessControlFunc(c.Whitelist, c.Lans)
	if err != nil {
		// invalid whitelist entry: the gateway refuses to start, nothing is served
		ctx.Label("config-rejected")
		return nil
	}
	calls := 0
	h := accessControlHandler(http.HandlerFunc(func(w http.ResponseWriter, r *http.Request) { calls++; w.WriteHeader(200) }), fn)
	req := httptest.NewRequest("GET", "http://node/v1/spaces", nil)
	req.RemoteAddr = c.Remote
	rec := httptest.NewRecorder()
	h.ServeHTTP(rec, req)
	served := calls > 0
	ref, why := vfRefAllowed(c)
	if served && !ref {
		return vlib.Failf("served-forbidden-origin", "remote %q whitelist %q lans %q: the handler ran (status %d) although the origin is neither loopback, whitelisted, in an enabled private range nor is the wildcard set", c.Remote, c.Whitelist, c.Lans, rec.Code)
	}
	if !served && rec.Code != http.StatusForbidden {
		return vlib.Failf("refused-without-403", "remote %q: refused with status %d", c.Remote, rec.Code)
	}
	if served && rec.Code != 200 {
		return vlib.Failf("served-but-status", "remote %q: status %d", c.Remote, rec.Code)
	}
	if served {
		ctx.Label("served:" + why)
	} else if ref {
		ctx.Label("refused-although-reference-allows:" + why) // stricter than required (e.g. 127.0.0.2); not a violation
	} else {
		ctx.Label("refused")
	}
	// non-trivial: address within one of a private range edge, a mapped form, or a whitelist hit
	if ap, err := netip.ParseAddrPort(c.Remote); err == nil {
		a := ap.Addr()
		if a.Is4In6() || why == "whitelist" {
			ctx.NonTrivial()
		} else if a.Is4() {
			b := a.As4()
			if (b[0] >= 9 && b[0] <= 11) || (b[0] == 172 && b[1] >= 15 && b[1] <= 32) || (b[0] == 192 && b[1] >= 167 && b[1] <= 169) {
				ctx.NonTrivial()
			}
		}
	}
	return nil
}

var vfACSpec = vlib.Spec[vfACCase]{
	Prop: "C20", Name: "access-control",
	Rule: "remote addresses (IPv4, IPv6, v4-mapped, zones, first/last/one-outside addresses of 10/8, 172.16/12, 192.168/16, loopback variants, malformed strings, missing/oversized ports), whitelists of 0-4 entries incl. '*' and mapped forms, LAN settings subsets of {10,172,192,junk}; the request goes through accessControlHandler with httptest; oracle: reference decision written from the statement with net/netip; checked direction: served => (loopback or whitelisted or enabled LAN or wildcard); refused => status 403 and the wrapped handler never ran; non-trivial = remote address within one /8 resp. one /16 step of a private range edge, a v4-mapped form, or a whitelist hit; distinct = distinct case JSON",
	Gen:  vfGenAC, Run: vfACRun,
}

// ---- (b) workspace listing ----------------------------------------------------------------------------

type vfWSCase struct {
	Keys []vfWSKey `json:"keys"`
}

type vfWSKey struct {
	Scalar []byte `json:"scalar"`
	BL     int    `json:"bl"`
	Chia   bool   `json:"chia"`
	PlotID []byte `json:"plot_id"`
	K      int    `json:"k"`
}

type vfKeeperV1 struct {
	mining.SpaceKeeperV1
	infos []engine.WorkSpaceInfo
}

func (k *vfKeeperV1) Configured() bool { return true }
func (k *vfKeeperV1) WorkSpaceInfos(flags engine.WorkSpaceStateFlags) ([]engine.WorkSpaceInfo, error) {
	return k.infos, nil
}

type vfKeeperV2 struct {
	mining.SpaceKeeperV2
	infos []engine_v2.WorkSpaceInfo
}

func (k *vfKeeperV2) WorkSpaceInfos(flags engine_v2.WorkSpaceStateFlags) ([]engine_v2.WorkSpaceInfo, error) {
	return k.infos, nil
}

var (
	vfG1Mu sync.Mutex
	vfG1   *chiapos.G1Element
)

func vfWSRun(c vfWSCase, ctx *vlib.Ctx) *vlib.Failure {
	vfApiSetup()
	k1, k2 := &vfKeeperV1{}, &vfKeeperV2{}
	vfG1Mu.Lock()
	if vfG1 == nil {
		sk, err := chiapos.NewAugSchemeMPL().KeyGen(bytes.Repeat([]byte{7}, 32))
		if err != nil {
			panic(err)
		}
		vfG1, _ = sk.GetG1()
	}
	vfG1Mu.Unlock()
	type want struct{ addr, target string }
	w1 := map[string]want{}
	w2 := map[string]string{}
	for i, k := range c.Keys {
		if k.Chia {
			var id pocutil.Hash
			copy(id[:], k.PlotID)
			sid := fmt.Sprintf("%s-%d", id.String(), k.K)
			k2.infos = append(k2.infos, engine_v2.WorkSpaceInfo{SpaceID: sid, PlotID: id, PublicKey: vfG1, BitLength: k.K})
			tgt, err := massutil.GetChiaPlotBindingTarget(id, k.K)
			if err != nil {
				return vlib.Failf("harness:authority", "%v", err)
			}
			w2[sid] = tgt
			continue
		}
		d := new(big.Int).SetBytes(k.Scalar)
		d.Mod(d, new(big.Int).Sub(pocec.S256().N, big.NewInt(1)))
		d.Add(d, big.NewInt(1))
		_, pub := pocec.PrivKeyFromBytes(pocec.S256(), d.Bytes())
		sid := fmt.Sprintf("%s-%d", hex.EncodeToString(pub.SerializeCompressed()), k.BL)
		k1.infos = append(k1.infos, engine.WorkSpaceInfo{SpaceID: sid, PublicKey: pub, Ordinal: int64(i), BitLength: k.BL})
		tgt, err := massutil.GetMassDBBindingTarget(pub, k.BL)
		if err != nil {
			return vlib.Failf("harness:authority", "%v", err)
		}
		// address: pay-to-pubkey-hash of hash160(key), hash computed independently of the chain library
		a, err := massutil.NewAddressPubKeyHash(vlib.RefHash160(pub.SerializeCompressed()), config.ChainParams)
		if err != nil {
			return vlib.Failf("harness:authority", "%v", err)
		}
		w1[sid] = want{a.EncodeAddress(), tgt}
	}
	s := &Server{spaceKeeperV1: k1, spaceKeeperV2: k2}
	r1, err := s.GetCapacitySpaces(context.Background(), &empty.Empty{})
	if err != nil {
		return vlib.Failf("listing-failed", "GetCapacitySpaces: %v", err)
	}
	if int(r1.SpaceCount) != len(k1.infos) || len(r1.Spaces) != len(k1.infos) {
		return vlib.Failf("listing-count", "GetCapacitySpaces lists %d/%d spaces, keeper has %d", r1.SpaceCount, len(r1.Spaces), len(k1.infos))
	}
	for _, ws := range r1.Spaces {
		w, ok := w1[ws.SpaceId]
		if !ok {
			return vlib.Failf("listing-unknown-space", "%s", ws.SpaceId)
		}
		if ws.Address != w.addr {
			return vlib.Failf("address-mismatch", "space %s: address %s, chain library %s", ws.SpaceId, ws.Address, w.addr)
		}
		if ws.BindingTarget != w.target {
			return vlib.Failf("binding-target-mismatch", "space %s: binding target %s, chain library %s", ws.SpaceId, ws.BindingTarget, w.target)
		}
		if !strings.HasPrefix(ws.SpaceId, ws.PublicKey+"-") || fmt.Sprintf("%s-%d", ws.PublicKey, ws.BitLength) != ws.SpaceId {
			return vlib.Failf("listing-fields", "space %s: public key %s bit length %d", ws.SpaceId, ws.PublicKey, ws.BitLength)
		}
		// the address decodes (chain library) to a pay-to-pubkey-hash of the key's hash160
		da, err := massutil.DecodeAddress(ws.Address, config.ChainParams)
		pkb, _ := hex.DecodeString(ws.PublicKey)
		if err != nil || !bytes.Equal(da.ScriptAddress(), vlib.RefHash160(pkb)) {
			return vlib.Failf("address-mismatch", "space %s: address %s does not decode to hash160 of its key (%v)", ws.SpaceId, ws.Address, err)
		}
	}
	r2, err := s.GetCapacitySpacesV2(context.Background(), &empty.Empty{})
	if err != nil {
		return vlib.Failf("listing-failed", "GetCapacitySpacesV2: %v", err)
	}
	if len(r2.Spaces) != len(k2.infos) {
		return vlib.Failf("listing-count", "GetCapacitySpacesV2 lists %d spaces, keeper has %d", len(r2.Spaces), len(k2.infos))
	}
	for _, ws := range r2.Spaces {
		if w, ok := w2[ws.SpaceId]; !ok || ws.BindingTarget != w {
			return vlib.Failf("binding-target-mismatch", "plot %s: binding target %s, chain library %s", ws.SpaceId, ws.BindingTarget, w)
		}
	}
	if len(k1.infos) > 0 && len(k2.infos) > 0 {
		ctx.NonTrivial()
	}
	return nil
}

var vfWSSpec = vlib.Spec[vfWSCase]{
	Prop: "C20", Name: "workspace-listing", Scale: 0.1,
	Rule: "1-6 workspaces per case behind api.Server through scripted keepers: native spaces with generated secp256k1 keys x bit lengths 24..40 (even) and chia plots with generated plot ids x k 32..50; oracle: BindingTarget equals massutil.GetMassDBBindingTarget / GetChiaPlotBindingTarget, Address equals and decodes to the pay-to-pubkey-hash of an independently computed hash160(key); non-trivial = case with both a native and a chia workspace; distinct = distinct case JSON",
	Gen: func(t *rapid.T) vfWSCase {
		var c vfWSCase
		n := rapid.IntRange(1, 6).Draw(t, "n")
		for i := 0; i < n; i++ {
			c.Keys = append(c.Keys, vfWSKey{Scalar: rapid.SliceOfN(rapid.Byte(), 1, 32).Draw(t, "scalar"), BL: 24 + 2*rapid.IntRange(0, 8).Draw(t, "bl"),
				Chia: rapid.Bool().Draw(t, "chia"), PlotID: rapid.SliceOfN(rapid.Byte(), 32, 32).Draw(t, "plot"), K: rapid.IntRange(32, 50).Draw(t, "k")})
		}
		return c
	},
	Run: vfWSRun,
}

// ---- (c) amounts -----------------------------------------------------------------------------------------

type vfAmtCase struct {
	M int64  `json:"m"`
	S string `json:"s,omitempty"`
}

var vfCanon = regexp.MustCompile(`^(0|[1-9][0-9]*)(\.[0-9]*[1-9])?$`)
var vfPlain = regexp.MustCompile(`^[0-9]+(\.[0-9]+)?$`)

func vfRefFormat(m int64) string {
	i, f := m/100000000, m%100000000
	if f == 0 {
		return fmt.Sprintf("%d", i)
	}
	return strings.TrimRight(fmt.Sprintf("%d.%08d", i, f), "0")
}

func vfAmtRun(c vfAmtCase, ctx *vlib.Ctx) *vlib.Failure {
	max := massutil.MaxAmount().IntValue()
	if c.S == "" {
		s, err := AmountToString(c.M)
		if c.M < 0 || c.M > max {
			if err == nil {
				return vlib.Failf("amount-out-of-range-rendered", "AmountToString(%d) = %q without error (max %d)", c.M, s, max)
			}
			ctx.Label("out-of-range")
			return nil
		}
		if err != nil {
			return vlib.Failf("amount-render-failed", "AmountToString(%d): %v", c.M, err)
		}
		if want := vfRefFormat(c.M); s != want {
			return vlib.Failf("amount-render-wrong", "AmountToString(%d) = %q, exact decimal is %q", c.M, s, want)
		}
		if !vfCanon.MatchString(s) {
			return vlib.Failf("amount-not-canonical", "AmountToString(%d) = %q", c.M, s)
		}
		back, err := StringToAmount(s)
		if err != nil || back.IntValue() != c.M {
			return vlib.Failf("amount-roundtrip", "StringToAmount(AmountToString(%d)=%q) = %v (%v)", c.M, s, back, err)
		}
		if c.M%100000000 != 0 && c.M%10 == 0 {
			ctx.NonTrivial()
			ctx.Label("fraction-with-trailing-zeros")
		}
		return nil
	}
	// parser on arbitrary strings: an accepted plain unsigned decimal must have exactly its value
	v, err := StringToAmount(c.S)
	if vfPlain.MatchString(c.S) {
		r, _ := new(big.Rat).SetString(c.S)
		r.Mul(r, big.NewRat(100000000, 1))
		exact := r.IsInt() && r.Num().IsInt64() && r.Num().Int64() <= max
		if err == nil {
			if !exact || v.IntValue() != r.Num().Int64() {
				return vlib.Failf("amount-parse-wrong", "StringToAmount(%q) = %d, exact value %s maxwell", c.S, v.IntValue(), r.FloatString(3))
			}
			ctx.Label("parsed")
			if strings.HasPrefix(c.S, "0") && len(c.S) > 1 || strings.HasSuffix(c.S, "0") && strings.Contains(c.S, ".") {
				ctx.NonTrivial()
			}
		} else {
			if exact {
				return vlib.Failf("amount-parse-rejected", "StringToAmount(%q) rejected (%v) although it is an exact in-range amount", c.S, err)
			}
			ctx.Label("rejected-inexact-or-out-of-range")
		}
		return nil
	}
	if err == nil {
		ctx.Label("non-plain-input-accepted") // signs, empty parts etc.: outside the listed statement, reported only
	} else {
		ctx.Label("non-plain-input-rejected")
	}
	return nil
}

var vfAmtSpec = vlib.Spec[vfAmtCase]{
	Prop: "C20", Name: "amounts",
	Rule: "amounts 0..MaxAmount (and just outside) biased to powers of ten +-1, trailing-zero patterns and the maximum; strings for the parser (leading zeros, up to 12 decimals, very long integers, signs, junk); oracle: AmountToString equals an independent integer formatter, matches the canonical pattern, StringToAmount returns the same integer; accepted plain decimals have exactly their value, out-of-range values are errors; non-trivial = amount with a non-zero fraction ending in zeros, or parser input with leading/trailing zeros; distinct = distinct case JSON",
	Gen: func(t *rapid.T) vfAmtCase {
		max := massutil.MaxAmount().IntValue()
		switch rapid.IntRange(0, 9).Draw(t, "kind") {
		case 0:
			e := rapid.IntRange(0, 17).Draw(t, "exp")
			p := int64(1)
			for i := 0; i < e; i++ {
				p *= 10
			}
			return vfAmtCase{M: p*int64(rapid.IntRange(1, 9).Draw(t, "digit")) + int64(rapid.IntRange(-1, 1).Draw(t, "pm"))}
		case 1:
			return vfAmtCase{M: max + int64(rapid.IntRange(-2, 2).Draw(t, "aroundMax"))}
		case 2:
			return vfAmtCase{M: rapid.Int64Range(-5, max).Draw(t, "any")}
		case 3:
			return vfAmtCase{M: rapid.Int64Range(0, 206438400).Draw(t, "int")*100000000 + int64(rapid.IntRange(0, 9999).Draw(t, "f"))*10000}
		case 4:
			return vfAmtCase{M: rapid.Int64().Draw(t, "wild")}
		case 5, 6:
			ip := rapid.SampledFrom([]string{"0", "00", "1", "007", "206438400", "206438401", "99999999999999999999", "12", "1000000"}).Draw(t, "ip")
			fp := rapid.StringMatching(`[0-9]{0,12}`).Draw(t, "fp")
			if rapid.Bool().Draw(t, "dot") {
				return vfAmtCase{M: -1, S: ip + "." + fp}
			}
			return vfAmtCase{M: -1, S: ip}
		case 7:
			return vfAmtCase{M: -1, S: rapid.SampledFrom([]string{"", ".", "1.", ".5", "-1", "+1", "-0.5", "1e3", " 1", "1 ", "1.2.3", "0x10", "١", "1,5", "NaN", "1._5", "--1"}).Draw(t, "junk")}
		default:
			return vfAmtCase{M: rapid.Int64Range(0, max).Draw(t, "uniform")}
		}
	},
	Run: vfAmtRun,
}

func TestVerif_C20(t *testing.T) {
	t.Run("access", func(t *testing.T) { vlib.Both(t, vfACSpec) })
	t.Run("spaces", func(t *testing.T) { vlib.Both(t, vfWSSpec) })
	t.Run("amounts", func(t *testing.T) { vlib.Both(t, vfAmtSpec) })
}
