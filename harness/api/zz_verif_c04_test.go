package api

// C04 (API part) — the wallet handlers of the gRPC server (api/wallets.go) are driven directly on a real keystore
// manager over a real store, with logging at debug level into a directory of the case: after every generated
// history the log files, the files the export handler wrote, and the store files are scanned for the seed, the
// master and derived extended private keys, raw private scalars and every passphrase that was in force, in raw,
// hex, base64 and decimal-list form. A positive control (a file with a planted secret) validates the scanner in every process.

import (
	"bytes"
	"context"
	"encoding/base64"
	"encoding/hex"
	"fmt"
	"os"
	"path/filepath"
	"strings"
	"sync"
	"testing"

	"github.com/golang/protobuf/ptypes/empty"
	"github.com/massnetorg/mass-core/config"
	"github.com/massnetorg/mass-core/logging"
	pb "massnet.org/mass/api/proto"
	"massnet.org/mass/mining"
	ldb "massnet.org/mass/poc/wallet/db/ldb"
	"massnet.org/mass/poc/wallet/keystore"
	"massnet.org/mass/poc/wallet/keystore/hdkeychain"

	"pgregory.net/rapid"
	"verif/vlib"
)

type vfWOp struct {
	K    string `json:"k"` // export | exportWrong | import | unlock | unlockWrong | lock | chpriv | chprivWrong | chpub | chpubWrong | get | badLen
	Pass string `json:"pass,omitempty"`
}

type vfWCase struct {
	Seed []byte  `json:"seed"`
	Priv string  `json:"priv"`
	Pub  string  `json:"pub"`
	Ops  []vfWOp `json:"ops"`
}

var vfPassGen = rapid.StringMatching(`[0-9a-zA-Z@#$%^&]{8,24}`)

func vfGenW(t *rapid.T) vfWCase {
	c := vfWCase{
		Seed: rapid.SliceOfN(rapid.Byte(), 32, 32).Draw(t, "seed"),
		Priv: "Pr1v#" + vfPassGen.Draw(t, "priv"),
		Pub:  "Pu8#" + vfPassGen.Draw(t, "pub"),
	}
	if len(c.Seed)%4 != 0 {
		c.Seed = c.Seed[:len(c.Seed)/4*4]
	}
	kinds := []string{"export", "export", "exportWrong", "exportBadPath", "importBadPath", "import", "unlock", "unlock", "unlockWrong", "lock", "chpriv", "chprivWrong", "chpub", "chpubWrong", "get", "badLen"}
	n := rapid.IntRange(1, 7).Draw(t, "n")
	slow := 0
	for i := 0; i < n; i++ {
		op := vfWOp{K: rapid.SampledFrom(kinds).Draw(t, "k")}
		if op.K == "chpriv" || op.K == "chpub" {
			slow++
			if slow > 1 {
				op.K = "export"
			}
		}
		op.Pass = "Nw#" + vfPassGen.Draw(t, "pass")
		c.Ops = append(c.Ops, op)
	}
	return c
}

var (
	vfLogOnce sync.Once
	vfLogDir  string
	vfCtlOnce sync.Once
	vfCtlErr  error
)

func vfForms(b []byte) [][]byte {
	if len(b) < 6 {
		return nil
	}
	out := [][]byte{b, []byte(hex.EncodeToString(b)), []byte(strings.ToUpper(hex.EncodeToString(b))),
		[]byte(base64.StdEncoding.EncodeToString(b)), []byte(base64.RawStdEncoding.EncodeToString(b)), []byte(base64.URLEncoding.EncodeToString(b))}
	gov := fmt.Sprintf("%v", b) // what a careless log of a byte slice prints: [1 2 3]
	out = append(out, []byte(gov[1:len(gov)-1]), []byte(strings.ReplaceAll(gov[1:len(gov)-1], " ", ",")), []byte(strings.ReplaceAll(gov[1:len(gov)-1], " ", ", ")))
	return out
}

type vfSecret struct {
	name string
	val  []byte
}

func vfScanDir(dir string, secrets []vfSecret) (string, int, int64) {
	files, total := 0, int64(0)
	var hit string
	filepath.Walk(dir, func(p string, fi os.FileInfo, err error) error {
		if err != nil || fi.IsDir() || hit != "" {
			return nil
		}
		b, err := os.ReadFile(p)
		if err != nil {
			return nil
		}
		files++
		total += int64(len(b))
		for _, s := range secrets {
			for fi, f := range vfForms(s.val) {
				if bytes.Contains(b, f) {
					hit = fmt.Sprintf("%s contains %s (encoding #%d) in %s", filepath.Base(p), s.name, fi, filepath.Base(filepath.Dir(p)))
					return nil
				}
			}
		}
		return nil
	})
	return hit, files, total
}

func vfWRun(c vfWCase, ctx *vlib.Ctx) *vlib.Failure {
	vfLogOnce.Do(func() {
		base := os.Getenv("TMPDIR")
		if base == "" {
			base = os.TempDir()
		}
		vfLogDir = filepath.Join(base, fmt.Sprintf("vfapilog-%d", os.Getpid()))
		os.MkdirAll(vfLogDir, 0o755)
		logging.Init(vfLogDir, "api.log", "debug", 1, false)
	})
	vfCtlOnce.Do(func() {
		d, _ := os.MkdirTemp("", "vfc04ctl")
		defer os.RemoveAll(d)
		planted := []byte("planted-secret-0123456789")
		os.WriteFile(filepath.Join(d, "x.log"), []byte("prefix "+base64.StdEncoding.EncodeToString(planted)+" suffix"), 0o644)
		if hit, _, _ := vfScanDir(d, []vfSecret{{"planted", planted}}); hit == "" {
			vfCtlErr = fmt.Errorf("scanner does not find a planted secret")
		}
	})
	if vfCtlErr != nil {
		return vlib.Failf("harness:positive-control", "%v", vfCtlErr)
	}
	root, err := os.MkdirTemp("", "vfc04api")
	if err != nil {
		return vlib.Failf("harness:tmp", "%v", err)
	}
	defer os.RemoveAll(root)
	exportDir := filepath.Join(root, "export")
	os.MkdirAll(exportDir, 0o755)
	store, err := ldb.CreateDB(filepath.Join(root, "keystore"))
	if err != nil {
		return vlib.Failf("harness:store", "%v", err)
	}
	defer store.Close()
	kmc, err := keystore.NewKeystoreManagerForPoC(store, []byte(c.Pub), &config.ChainParams)
	if err != nil {
		return vlib.Failf("harness:manager", "%v", err)
	}
	light := &keystore.ScryptOptions{N: 16, R: 8, P: 1}
	wid, err := kmc.NewKeystore([]byte(c.Priv), c.Seed, "remark", &config.ChainParams, light)
	if err != nil {
		ctx.Label("seed-unusable")
		return nil
	}
	s := &Server{pocWallet: kmc, pocMiner: mining.NewMockedPoCMiner()}
	bg := context.Background()
	priv, pub := c.Priv, c.Pub
	secrets := []vfSecret{{"private passphrase", []byte(priv)}, {"public passphrase", []byte(pub)}, {"seed", c.Seed}}
	// the key material behind the seed, recovered the way an owner of the passphrase would
	if js, err := kmc.ExportKeystore(wid, []byte(priv)); err == nil {
		if ks, err := keystore.GetKeystoreFromJson(js); err == nil {
			if mk, err := keystore.RecoverMasterHDKey(ks, []byte(priv)); err == nil {
				secrets = append(secrets, vfSecret{"master extended private key", append([]byte(nil), mk...)})
				if root, err := hdkeychain.NewKeyFromString(string(mk)); err == nil {
					scope := keystore.Net2KeyScope[config.ChainParams.HDCoinType]
					path := []uint32{scope.Purpose + hdkeychain.HardenedKeyStart, scope.Coin + hdkeychain.HardenedKeyStart, uint32(keystore.PoCUsage) + hdkeychain.HardenedKeyStart}
					k := root
					names := []string{"purpose key", "coin type key", "account key"}
					for i, idx := range path {
						k, err = k.Child(idx)
						if err != nil {
							break
						}
						secrets = append(secrets, vfSecret{names[i] + " (extended)", []byte(k.String())})
						if ec, err := k.ECPrivKey(); err == nil {
							secrets = append(secrets, vfSecret{names[i] + " (scalar)", ec.Serialize()})
						}
					}
					if err == nil {
						for _, br := range []uint32{keystore.ExternalBranch, keystore.InternalBranch} {
							bk, err := k.Child(br)
							if err != nil {
								continue
							}
							secrets = append(secrets, vfSecret{fmt.Sprintf("branch %d key (extended)", br), []byte(bk.String())})
							for ci := uint32(0); ci < 3; ci++ {
								if ck, err := bk.Child(ci); err == nil {
									if ec, err := ck.ECPrivKey(); err == nil {
										secrets = append(secrets, vfSecret{fmt.Sprintf("child %d/%d (scalar)", br, ci), ec.Serialize()})
									}
								}
							}
						}
					}
				}
			}
		}
	}
	if len(secrets) < 8 {
		return vlib.Failf("harness:secrets", "only %d secrets could be derived", len(secrets))
	}
	exported := ""
	for oi, op := range c.Ops {
		where := fmt.Sprintf("op#%d %s", oi, op.K)
		switch op.K {
		case "export", "exportWrong":
			p := priv
			if op.K == "exportWrong" {
				p = op.Pass
			}
			resp, err := s.ExportKeystore(bg, &pb.ExportKeystoreRequest{WalletId: wid, Passphrase: p, ExportPath: exportDir})
			if op.K == "export" {
				if err != nil {
					return vlib.Failf("api-export-failed", "%s: %v", where, err)
				}
				exported = filepath.Join(exportDir, fmt.Sprintf("%s-%s.json", keystoreFileNamePrefix, wid))
				if b, rerr := os.ReadFile(exported); rerr != nil || string(b) != resp.Keystore {
					return vlib.Failf("api-export-file-differs", "%s: file and response differ (%v)", where, rerr)
				}
			} else if err == nil {
				return vlib.Failf("api-export-with-wrong-passphrase", "%s", where)
			}
		case "exportBadPath":
			// the right passphrase, but the file cannot be written (missing directory / the path is a file)
			bad := filepath.Join(root, "no-such-dir", "deeper")
			if oi%2 == 1 {
				bad = filepath.Join(root, "a-file")
				os.WriteFile(bad, []byte("x"), 0o644)
			}
			if _, err := s.ExportKeystore(bg, &pb.ExportKeystoreRequest{WalletId: wid, Passphrase: priv, ExportPath: bad}); err == nil {
				return vlib.Failf("api-export-to-unwritable-path-succeeded", "%s: %s", where, bad)
			}
		case "importBadPath":
			s.ImportKeystore(bg, &pb.ImportKeystoreRequest{ImportPath: filepath.Join(root, "missing.json"), OldPassphrase: priv, NewPassphrase: op.Pass})
		case "import":
			if exported == "" {
				ctx.Label("import-without-export")
				continue
			}
			// importing what is already there is refused; the handler still reads and parses the file
			s.ImportKeystore(bg, &pb.ImportKeystoreRequest{ImportPath: exported, OldPassphrase: priv})
		case "unlock":
			if _, err := s.UnlockWallet(bg, &pb.UnlockWalletRequest{Passphrase: priv}); err != nil {
				return vlib.Failf("api-unlock-failed", "%s: %v", where, err)
			}
		case "unlockWrong":
			if kmc.IsLocked() {
				if _, err := s.UnlockWallet(bg, &pb.UnlockWalletRequest{Passphrase: op.Pass}); err == nil {
					return vlib.Failf("api-unlock-with-wrong-passphrase", "%s", where)
				}
			}
		case "lock":
			s.LockWallet(bg, &empty.Empty{})
		case "chpriv":
			if _, err := s.ChangePrivatePass(bg, &pb.ChangePrivatePassRequest{OldPrivpass: priv, NewPrivpass: op.Pass}); err != nil {
				return vlib.Failf("api-chpriv-failed", "%s: %v", where, err)
			}
			priv = op.Pass
			secrets = append(secrets, vfSecret{"new private passphrase", []byte(priv)})
		case "chprivWrong":
			if _, err := s.ChangePrivatePass(bg, &pb.ChangePrivatePassRequest{OldPrivpass: op.Pass, NewPrivpass: "Other#" + op.Pass[:8]}); err == nil {
				return vlib.Failf("api-chpriv-with-wrong-passphrase", "%s", where)
			}
		case "chpub":
			if _, err := s.ChangePublicPass(bg, &pb.ChangePublicPassRequest{OldPubpass: pub, NewPubpass: op.Pass}); err != nil {
				return vlib.Failf("api-chpub-failed", "%s: %v", where, err)
			}
			pub = op.Pass
			secrets = append(secrets, vfSecret{"new public passphrase", []byte(pub)})
		case "chpubWrong":
			if _, err := s.ChangePublicPass(bg, &pb.ChangePublicPassRequest{OldPubpass: op.Pass, NewPubpass: "Other#" + op.Pass[:8]}); err == nil {
				return vlib.Failf("api-chpub-with-wrong-passphrase", "%s", where)
			}
		case "get":
			s.GetKeystore(bg, &empty.Empty{})
		case "badLen":
			s.UnlockWallet(bg, &pb.UnlockWalletRequest{Passphrase: priv[:5]})
			s.ExportKeystore(bg, &pb.ExportKeystoreRequest{WalletId: wid[:10], Passphrase: priv, ExportPath: exportDir})
		}
	}
	store.Close()
	for _, d := range []struct{ what, dir string }{{"log directory", vfLogDir}, {"export directory", exportDir}, {"wallet store", filepath.Join(root, "keystore")}} {
		hit, files, total := vfScanDir(d.dir, secrets)
		ctx.LabelN("files-scanned:"+d.what, files)
		ctx.LabelN("kib-scanned", int(total>>10))
		if hit != "" {
			return vlib.Failf("api-secret-in-clear:"+strings.Fields(d.what)[0], "%s: %s", d.what, hit)
		}
	}
	ctx.LabelN("secrets-searched", len(secrets))
	if exported != "" && len(c.Ops) >= 3 {
		ctx.NonTrivial()
	}
	return nil
}

var vfWSpec = vlib.Spec[vfWCase]{
	Prop: "C04", Name: "api-wallet-handlers", Scale: 0.2, Min: 8,
	Rule: "a keystore created from a generated seed and passphrases on a real store; 1-7 wallet handler calls of api/wallets.go from {ExportKeystore (file + response), export with a wrong passphrase, export to a path that cannot be written, import of a missing file, ImportKeystore of the exported file, UnlockWallet (right/wrong), LockWallet, ChangePrivatePass / ChangePublicPass (right/wrong old passphrase), GetKeystore, requests with out-of-range lengths}, logging at debug level; oracle: the log directory, the export directory and the store files contain none of {seed, master / purpose / coin / account / branch extended private keys, their scalars, the first child scalars, every passphrase in force at some time} in raw, hex, base64 or Go %v (decimal list) form (scanner validated by a planted secret); non-trivial = at least one export to file and >=3 calls; distinct = distinct case JSON",
	Gen:  vfGenW, Run: vfWRun,
}

func TestVerif_C04(t *testing.T) { vlib.Both(t, vfWSpec) }
