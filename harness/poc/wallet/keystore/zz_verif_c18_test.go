package keystore

// C18 (wallet side) — the wallet's path m/44'/coin'/account'/branch/index equals the BIP32 reference, and
// mnemonic sentences round-trip to the entropy they encode (DESIGN.md §4 C18).

import (
	"bytes"
	"encoding/hex"
	"fmt"
	"os"
	"strings"
	"testing"

	"massnet.org/mass/config"
	"massnet.org/mass/poc/wallet/keystore/wordlists"

	"pgregory.net/rapid"
	"verif/vlib"
)

type vfC18Wallet struct {
	Seed []byte `json:"seed"`
	Ext  int    `json:"ext"`
	Int  int    `json:"int"`
	Unl  bool   `json:"unlocked"`
}

func vfC18RefAccount(seed []byte, legacy bool) (*vlib.RefKey, bool, error) {
	r, err := vlib.RefMaster(seed)
	if err != nil {
		return nil, false, err
	}
	scope := Net2KeyScope[config.ChainParams.HDCoinType]
	short := false
	for _, i := range []uint32{scope.Purpose + 0x80000000, scope.Coin + 0x80000000, 0 + 0x80000000} {
		if r.Priv.BitLen() <= 248 {
			short = true
		}
		if r, err = r.Child(i, legacy); err != nil {
			return nil, short, err
		}
	}
	return r, short, nil
}

func vfC18WalletRun(c vfC18Wallet, ctx *vlib.Ctx) *vlib.Failure {
	vfSetup()
	dir, err := os.MkdirTemp("", "vfc18")
	if err != nil {
		panic(err)
	}
	defer os.RemoveAll(dir)
	store, err := vfOpenLevel(dir+"/keystore", true)
	if err != nil {
		return vlib.Failf("harness:open", "%v", err)
	}
	defer store.Close()
	kmc, err := NewKeystoreManagerForPoC(store, []byte(vfPubPool[0]), config.ChainParams)
	if err != nil {
		return vlib.Failf("harness:open", "%v", err)
	}
	acct, short, rerr := vfC18RefAccount(c.Seed, false)
	id, err := kmc.NewKeystore([]byte(vfPassPool[0]), c.Seed, "", config.ChainParams, fastScryptVf)
	if rerr != nil || err != nil {
		if (rerr != nil) != (err != nil) {
			return vlib.Failf("wallet-path:create-mismatch", "NewKeystore err=%v, reference err=%v", err, rerr)
		}
		return nil
	}
	if c.Unl {
		if err := kmc.Unlock([]byte(vfPassPool[0])); err != nil {
			return vlib.Failf("harness:unlock", "%v", err)
		}
	}
	for b, n := range []int{c.Ext, c.Int} {
		mas, err := kmc.NextAddresses(id, b == 1, uint32(n))
		if err != nil {
			return vlib.Failf("harness:next", "%v", err)
		}
		br, err := acct.Child(uint32(b), false)
		if err != nil {
			return nil
		}
		for i, ma := range mas {
			ch, err := br.Child(uint32(i), false)
			if err != nil {
				return nil
			}
			got := ma.pubKey.SerializeCompressed()
			if !bytes.Equal(got, ch.Pub) {
				sig := "wallet-path-mismatch"
				if short {
					if la, _, lerr := vfC18RefAccount(c.Seed, true); lerr == nil {
						if lb, e1 := la.Child(uint32(b), false); e1 == nil {
							if lc, e2 := lb.Child(uint32(i), false); e2 == nil && bytes.Equal(lc.Pub, got) {
								sig = "hardened-child-of-short-private-parent"
							}
						}
					}
				}
				return vlib.Failf(sig, "seed %x: key m/44'/%d'/0'/%d/%d is %x, BIP32 reference %x", c.Seed, config.ChainParams.HDCoinType, b, i, got, ch.Pub)
			}
		}
	}
	if short {
		ctx.Label("short-key-on-hardened-wallet-path")
	}
	if c.Ext > 0 && c.Int > 0 {
		ctx.NonTrivial()
	}
	return nil
}

var vfC18WalletSpec = vlib.Spec[vfC18Wallet]{
	Prop: "C18", Name: "wallet-path-vs-reference", Scale: 0.1,
	Rule: "random 32-byte seeds; a real keystore is created and 0-4 keys per branch are issued (locked: public derivation, unlocked: private derivation); every key must equal the reference derivation m/44'/coin'/0'/branch/index; non-trivial = keys on both branches; distinct = distinct case JSON",
	Gen: func(t *rapid.T) vfC18Wallet {
		return vfC18Wallet{Seed: rapid.SliceOfN(rapid.Byte(), 32, 32).Draw(t, "seed"), Ext: rapid.IntRange(0, 4).Draw(t, "ext"), Int: rapid.IntRange(0, 4).Draw(t, "int"), Unl: rapid.Bool().Draw(t, "unlocked")}
	},
	Run: vfC18WalletRun,
	Exclude: func(c vfC18Wallet) string {
		if _, short, err := vfC18RefAccount(c.Seed, false); err == nil && short {
			return "hardened-child-of-short-private-parent"
		}
		return ""
	},
}

type vfC18Mn struct {
	Entropy []byte `json:"entropy"`
	List    int    `json:"list"`
}

var vfWordLists = [][]string{wordlists.English, wordlists.ChineseSimplified, wordlists.ChineseTraditional, wordlists.French, wordlists.Italian, wordlists.Japanese, wordlists.Korean, wordlists.Spanish}

func vfC18MnRun(c vfC18Mn, ctx *vlib.Ctx) *vlib.Failure {
	list := vfWordLists[c.List%len(vfWordLists)]
	SetWordList(list)
	defer SetWordList(wordlists.English)
	idx, rerr := vlib.RefMnemonicIndices(c.Entropy)
	m, err := NewMnemonic(c.Entropy)
	if (rerr != nil) != (err != nil) {
		return vlib.Failf("mnemonic:size-acceptance", "entropy of %d bytes: NewMnemonic err=%v, BIP39 reference err=%v", len(c.Entropy), err, rerr)
	}
	if err != nil {
		return nil
	}
	words := strings.Fields(m)
	if len(words) != len(idx) {
		return vlib.Failf("mnemonic:length", "entropy %x: %d words, BIP39 says %d", c.Entropy, len(words), len(idx))
	}
	for i, w := range words {
		if w != list[idx[i]] {
			return vlib.Failf("mnemonic:word-mismatch", "entropy %x: word %d is %q, BIP39 packing gives %q (index %d)", c.Entropy, i, w, list[idx[i]], idx[i])
		}
	}
	back, err := EntropyFromMnemonic(m)
	if err != nil || !bytes.Equal(back, c.Entropy) {
		return vlib.Failf("mnemonic:roundtrip", "entropy %x: EntropyFromMnemonic(NewMnemonic(e)) = %x (%v)", c.Entropy, back, err)
	}
	raw, err := MnemonicToByteArray(m, true)
	if err != nil || !bytes.Equal(raw, c.Entropy) {
		return vlib.Failf("mnemonic:roundtrip", "entropy %x: MnemonicToByteArray(m,true) = %x (%v)", c.Entropy, raw, err)
	}
	if !IsMnemonicValid(m) {
		return vlib.Failf("mnemonic:roundtrip", "entropy %x: own mnemonic reported invalid", c.Entropy)
	}
	// a sentence with one word replaced must not decode to the same entropy silently
	w2 := append([]string(nil), words...)
	w2[len(w2)-1] = list[(idx[len(idx)-1]+1)%2048]
	if e2, err := EntropyFromMnemonic(strings.Join(w2, " ")); err == nil && bytes.Equal(e2, c.Entropy) {
		return vlib.Failf("mnemonic:collision", "entropy %x: a different sentence decodes to the same entropy", c.Entropy)
	}
	if c.Entropy[0] == 0 {
		ctx.Label("leading-zero-entropy")
	}
	ctx.Label(fmt.Sprintf("size-%d", len(c.Entropy)))
	if c.Entropy[0] == 0 || c.Entropy[len(c.Entropy)-1] == 0 || c.List%len(vfWordLists) != 0 {
		ctx.NonTrivial()
	}
	return nil
}

var vfC18MnSpec = vlib.Spec[vfC18Mn]{
	Prop: "C18", Name: "mnemonic-roundtrip", Scale: 1,
	Rule: "entropy of the five permitted sizes (16..32 bytes, also illegal sizes for the acceptance check), biased to leading/trailing zero bytes and all-zero/all-FF, over the eight word lists; oracle: words equal the independent BIP39 bit packing, EntropyFromMnemonic and MnemonicToByteArray(raw) return the entropy; non-trivial = entropy with a leading or trailing zero byte, or a non-English word list; distinct = distinct case JSON",
	Gen: func(t *rapid.T) vfC18Mn {
		n := rapid.SampledFrom([]int{16, 20, 24, 28, 32, 16, 20, 24, 28, 32, 12, 17, 36, 0}).Draw(t, "size")
		e := rapid.SliceOfN(rapid.Byte(), n, n).Draw(t, "entropy")
		switch rapid.IntRange(0, 7).Draw(t, "bias") {
		case 0:
			for i := 0; i < len(e) && i < rapid.IntRange(1, 4).Draw(t, "lead"); i++ {
				e[i] = 0
			}
		case 1:
			if len(e) > 0 {
				e[len(e)-1] = 0
			}
		case 2:
			for i := range e {
				e[i] = 0
			}
		case 3:
			for i := range e {
				e[i] = 0xff
			}
		}
		return vfC18Mn{Entropy: e, List: rapid.IntRange(0, 15).Draw(t, "list")}
	},
	Run: vfC18MnRun,
}

func TestVerif_C18(t *testing.T) {
	if err := vlib.RefSelfTest(); err != nil {
		t.Fatalf("VERIF-INCONCLUSIVE: reference self-test failed: %v", err)
	}
	t.Run("wallet", func(t *testing.T) { vlib.Both(t, vfC18WalletSpec) })
	t.Run("mnemonic", func(t *testing.T) { vlib.Both(t, vfC18MnSpec) })
}

var _ = hex.EncodeToString
