package keystore

// C05 — signatures verify under the public key they were requested for (DESIGN.md §4 C05).

import (
	"testing"

	"pgregory.net/rapid"
	"verif/vlib"
)

var vfC05Cfg = &vfGenCfg{MaxOps: 26, TwoWallets: true, BadPass: false, SignFresh: true,
	Weights: map[string]int{"new": 3, "next": 7, "gen": 4, "remark": 0, "chpriv": 2, "chpub": 1, "delete": 1, "export": 1, "import": 1, "xfer": 3,
		"lock": 2, "unlock": 6, "restart": 3, "sign": 14}}

// at the end: unlock and sign with every issued key of every keystore
func vfC05AtEnd(e *vfEnv) *vlib.Failure {
	for _, w := range e.w {
		if len(w.m.Order) == 0 {
			continue
		}
		if f := e.step(9000, &vfWOp{K: "lock", W: w.idx}); f != nil {
			return f
		}
		if f := e.step(9001, &vfWOp{K: "unlock", W: w.idx, Pass: "cur"}); f != nil {
			return f
		}
		for ki := range w.m.Order {
			for b := 0; b < 2; b++ {
				for i := range w.m.Ks[w.m.Order[ki]].Br[b] {
					d := make([]byte, 32)
					d[0], d[1], d[2] = byte(ki+1), byte(b), byte(i)
					if f := e.step(9100, &vfWOp{K: "sign", W: w.idx, Ks: ki, Int: b == 1, N: i, Data: d, Msg: i%2 == 1}); f != nil {
						return f
					}
				}
			}
		}
	}
	return nil
}

var vfC05Spec = vlib.Spec[vfWProg]{
	Prop: "C05", Name: "sign-verify",
	Rule: "wallet histories with frequent sign requests (hash and message, both branches, foreign keys, wrong-length hashes, locked state; two out of three issuances are followed at once by a request for the key just issued); every history ends with lock, unlock and one signature per issued key; oracle: the signature verifies with the chain library (pocec) under exactly the requested key and digest (HashH(message) for messages), not under any other issued key nor another digest; requests while locked, for unknown keys or with a non-32-byte hash fail; non-trivial = a verified signature for a key that was issued while the wallet was locked (public derivation) or restored by import, or for an internal-branch key; distinct = distinct program JSON",
	Gen:  func(t *rapid.T) vfWProg { return vfGenWProg(t, vfC05Cfg) },
	Run: func(p vfWProg, c *vlib.Ctx) *vlib.Failure {
		e, f := vfRunWallet(&p, c, &vfOpt{AtEnd: vfC05AtEnd})
		if e != nil {
			e.labels()
			if e.st.signedAfterTransition || e.st.signedInternal {
				c.NonTrivial()
			}
			if e.st.signedAfterTransition {
				c.Label("case:signed-key-issued-locked-or-imported")
			}
			if e.st.signedInternal {
				c.Label("case:signed-internal-branch")
			}
		}
		return f
	},
}

func TestVerif_C05(t *testing.T) { vlib.Both(t, vfC05Spec) }
