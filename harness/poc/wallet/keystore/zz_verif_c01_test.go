package keystore

// C01 — an exported keystore restores the same identity and keys; tampered files, wrong passphrases and
// already-present keystores are rejected and leave the wallet unchanged (DESIGN.md §4 C01).

import (
	"testing"

	"pgregory.net/rapid"
	"verif/vlib"
)

var vfC01Cfg = &vfGenCfg{MaxOps: 22, TwoWallets: true, BadPass: true, Tamper: true,
	Weights: map[string]int{"new": 4, "next": 8, "gen": 3, "remark": 3, "chpriv": 2, "chpub": 1, "delete": 2, "export": 3, "import": 5, "xfer": 10,
		"lock": 3, "unlock": 4, "restart": 2, "sign": 2}}

// After an import every restored key must be able to sign once the wallet is unlocked.
func vfC01AfterStep(e *vfEnv, op *vfWOp) *vlib.Failure {
	if op.K != "import" {
		return nil
	}
	return nil
}

func vfC01AtEnd(e *vfEnv) *vlib.Failure {
	if e.st.importsOK == 0 {
		return nil
	}
	return vfC05AtEnd(e) // unlock, then every key of every keystore (imported ones included) signs and verifies
}

var vfC01Spec = vlib.Spec[vfWProg]{
	Prop: "C01", Name: "export-import-roundtrip",
	Rule: "wallet histories on two wallets rich in export -> (delete) -> import transfers (same wallet after delete, other wallet with its own public passphrase and keystores, empty/equal/different new passphrase), imports with wrong/superseded/public passphrases, imports of present keystores, and single-field corruptions of the exported JSON (13 leaf fields x {bit flip, truncation, non-hex, swap with another export, type change, removal, count delta}); oracle: round trip against the model (same id and remark, same keys at the same indices on both branches, ordinals, all keys sign after unlock), rejections leave both wallets equal to the model; non-trivial = a successful import of an export with unequal branch counts, or containing keys issued while locked, or into a wallet already holding another keystore, or a tampered import attempt; distinct = distinct program JSON",
	Gen:  func(t *rapid.T) vfWProg { return vfGenWProg(t, vfC01Cfg) },
	Run: func(p vfWProg, c *vlib.Ctx) *vlib.Failure {
		e, f := vfRunWallet(&p, c, &vfOpt{AfterStep: vfC01AfterStep, AtEnd: vfC01AtEnd})
		if e != nil {
			e.labels()
			if e.st.importsOK > 0 && (e.st.unequalCounts || e.st.lockedIssuedExported || e.st.importIntoNonEmpty) || e.st.tamperTried > 0 {
				c.NonTrivial()
			}
			if e.st.importIntoNonEmpty {
				c.Label("case:import-into-non-empty-wallet")
			}
			if e.st.importsOK > 0 && e.st.unequalCounts {
				c.Label("case:import-unequal-counts")
			}
		}
		return f
	},
}

// A dense sweep over corruptions of the verified fields: one keystore, one export, then 16 imports of differently
// corrupted copies into the other (empty) wallet; each must be rejected and leave that wallet empty.
var vfC01SweepSpec = vlib.Spec[vfWProg]{
	Prop: "C01", Name: "verified-field-corruption-sweep", Scale: 0.15, Min: 2,
	Rule: "one keystore with 0-5 external and 0-5 internal keys (optionally after a passphrase change), exported once, then 16 imports into the other wallet of copies with one corruption each in crypto.privParams / crypto.cryptoKeyPrivEnc / crypto.masterHDPrivKeyEnc (bit flip at an independent byte and bit position, bit flip within the last 24 bytes, truncation, non-hex character, type change, removal), then an import of the untouched export; oracle: every corrupted copy is rejected, the target wallet stays equal to the model, the final import restores the exported keystore key by key; non-trivial = >=12 effective corruptions tried; distinct = distinct program JSON",
	Gen: func(t *rapid.T) vfWProg {
		p := vfWProg{PubA: vfPubPool[0], PubB: vfPubPool[1]}
		p.Ops = append(p.Ops, vfWOp{K: "new", Seed: rapid.SliceOfN(rapid.Byte(), 32, 32).Draw(t, "seed"), Pass: "lit:" + vfPassPool[0], S: rapid.SampledFrom(vfRemarks).Draw(t, "remark")})
		p.Ops = append(p.Ops, vfWOp{K: "next", N: rapid.IntRange(0, 5).Draw(t, "next")}, vfWOp{K: "next", Int: true, N: rapid.IntRange(0, 5).Draw(t, "nint")})
		if rapid.Bool().Draw(t, "chpriv") {
			p.Ops = append(p.Ops, vfWOp{K: "chpriv", Pass: "cur", New: "lit:" + vfPassPool[1]})
		}
		p.Ops = append(p.Ops, vfWOp{K: "export", Pass: "cur"})
		for i := 0; i < 16; i++ {
			p.Ops = append(p.Ops, vfWOp{K: "import", W: 1, Pass: "export", New: "auto", Tam: &vfTam{
				Field: rapid.SampledFrom([]string{"crypto.privParams", "crypto.privParams", "crypto.cryptoKeyPrivEnc", "crypto.masterHDPrivKeyEnc"}).Draw(t, "field"),
				Kind:  rapid.SampledFrom([]string{"bitflip", "bitflip", "bitflip", "tailflip", "tailflip", "truncate", "nonhex", "type", "remove"}).Draw(t, "kind"),
				Arg:   rapid.IntRange(0, 400).Draw(t, "arg"), Bit: rapid.IntRange(0, 7).Draw(t, "bit")}})
		}
		p.Ops = append(p.Ops, vfWOp{K: "import", W: 1, Pass: "export", New: "auto"})
		return p
	},
	Run: func(p vfWProg, c *vlib.Ctx) *vlib.Failure {
		e, f := vfRunWallet(&p, c, &vfOpt{AtEnd: vfC01AtEnd})
		if e != nil {
			e.labels()
			if e.st.tamperTried >= 12 {
				c.NonTrivial()
			}
		}
		return f
	},
}

func TestVerif_C01(t *testing.T) {
	t.Run("roundtrip", func(t *testing.T) { vlib.Both(t, vfC01Spec) })
	t.Run("sweep", func(t *testing.T) { vlib.Both(t, vfC01SweepSpec) })
}
