package keystore

// C04 — no secret is stored, exported or logged in the clear (DESIGN.md §4 C04).
// After every step of a generated wallet history the bytes of both wallet stores (raw files and logical dump),
// of every export produced and of the log output (trace level) are searched for every secret that exists at that
// moment: seeds, extended and child private keys, both crypto keys, both scrypt-derived master keys, all
// passphrases — in raw, hex, HEX, Go %v and base58/xprv form. A positive control (the public keystore id must be
// found in the store) guards against a scanner that finds nothing. The decrypt chain is exercised as well: with
// the private passphrase the account private key is recoverable from the store, with another passphrase it is not.

import (
	"bytes"
	"encoding/hex"
	"fmt"
	"os"
	"path/filepath"
	"strings"
	"testing"

	"massnet.org/mass/config"
	ldb "massnet.org/mass/poc/wallet/db/ldb"
	"massnet.org/mass/poc/wallet/keystore/hdkeychain"
	"massnet.org/mass/poc/wallet/keystore/snacl"

	"pgregory.net/rapid"
	"verif/vlib"
)

type vfNeedle struct {
	what string
	b    []byte
}

type vfC04State struct {
	needles   []vfNeedle
	have      map[string]bool
	logOff    int64
	scannedEx int
	errLines  int
	scans     int
	bytesSeen int64
	// seeds by keystore id
	seeds map[string][]byte
	// every public-side crypto key seen (derivable from the public passphrase alone)
	pubKeys   [][]byte
	pubOpened int
}

// private reports whether a needle is private-side material (must not be recoverable with the public passphrase)
func (n *vfNeedle) private() bool {
	return !strings.HasPrefix(n.what, "cryptoKeyPub") && !strings.HasPrefix(n.what, "masterKeyPub") && !strings.HasPrefix(n.what, "passphrase")
}

// openWithPublicKeys: "private key material can be recovered only with the private passphrase" — every stored or
// exported ciphertext that opens with a key derivable from the PUBLIC passphrase must not contain private material.
func (s *vfC04State) openWithPublicKeys(where string, ct []byte) *vlib.Failure {
	if len(ct) < snacl.NonceSize+snacl.Overhead {
		return nil
	}
	for _, k := range s.pubKeys {
		var ck cryptoKey
		ck.CopyBytes(k)
		pt, err := ck.Decrypt(ct)
		if err != nil {
			continue
		}
		s.pubOpened++
		for _, n := range s.needles {
			if n.private() && bytes.Contains(pt, n.b) {
				return vlib.Failf("recoverable-without-private-passphrase:"+strings.SplitN(n.what, "(", 2)[0], "%s: a ciphertext that opens with a key derived from the public passphrase contains %s", where, n.what)
			}
		}
	}
	return nil
}

func (s *vfC04State) addPubKey(b []byte) {
	if vfAllZero(b) {
		return
	}
	for _, k := range s.pubKeys {
		if bytes.Equal(k, b) {
			return
		}
	}
	s.pubKeys = append(s.pubKeys, append([]byte(nil), b...))
}

func (s *vfC04State) addRaw(what string, b []byte) {
	if len(b) < 6 || vfAllZero(b) {
		return
	}
	k := what + "|" + string(b)
	if s.have[k] {
		return
	}
	s.have[k] = true
	s.needles = append(s.needles, vfNeedle{what, append([]byte(nil), b...)})
}

// addBytes registers a binary secret in all textual forms a careless Put or log line would produce.
func (s *vfC04State) addBytes(what string, b []byte) {
	if len(b) < 8 || vfAllZero(b) {
		return
	}
	s.addRaw(what+"(raw)", b)
	s.addRaw(what+"(hex)", []byte(hex.EncodeToString(b)))
	s.addRaw(what+"(HEX)", []byte(strings.ToUpper(hex.EncodeToString(b))))
	s.addRaw(what+"(%v)", []byte(fmt.Sprint(b)))
}

func (s *vfC04State) addExt(what string, k *hdkeychain.ExtendedKey) {
	if k == nil || !k.IsPrivate() {
		return
	}
	s.addRaw(what+"(string)", []byte(k.String()))
	if pk, err := k.ECPrivKey(); err == nil {
		d := pk.D.Bytes()
		s.addBytes(what+"(scalar)", d)
		s.addRaw(what+"(decimal)", []byte(pk.D.String()))
	}
}

func (s *vfC04State) collect(e *vfEnv, op *vfWOp) *vlib.Failure {
	for _, w := range e.w {
		m := w.m
		for _, p := range append([]string{m.PrivPass, m.PubPass}, m.OldPriv...) {
			if len(p) >= 6 {
				s.addRaw("passphrase", []byte(p))
			}
		}
		for id, am := range w.kmc.managedKeystores {
			s.addBytes("cryptoKeyPub", am.cryptoKeyPub.Bytes())
			s.addPubKey(am.cryptoKeyPub.Bytes())
			if am.masterKeyPub != nil && am.masterKeyPub.Key != nil {
				s.addBytes("masterKeyPub", am.masterKeyPub.Key[:])
				s.addPubKey(am.masterKeyPub.Key[:])
			}
			if m.PrivPass == "" {
				continue
			}
			// recover the private side with the private passphrase, on copies (the wallet's own objects stay untouched)
			var sk snacl.SecretKey
			if err := sk.Unmarshal(am.masterKeyPriv.Marshal()); err != nil {
				return vlib.Failf("c04:params", "keystore %s: %v", id, err)
			}
			pp := []byte(m.PrivPass)
			if err := sk.DeriveKey(&pp); err != nil {
				return vlib.Failf("c04:cannot-recover-with-passphrase", "keystore %s: master private key not derivable with the current private passphrase: %v", id, err)
			}
			s.addBytes("masterKeyPriv", sk.Key[:])
			ck, err := sk.Decrypt(am.cryptoKeyPrivEncrypted)
			if err != nil {
				return vlib.Failf("c04:cannot-recover-with-passphrase", "keystore %s: private crypto key does not open with the current private passphrase: %v", id, err)
			}
			s.addBytes("cryptoKeyPriv", ck)
			var cpk cryptoKey
			cpk.CopyBytes(ck)
			acct, err := cpk.Decrypt(am.acctInfo.acctKeyEncrypted)
			if err != nil {
				return vlib.Failf("c04:cannot-recover-with-passphrase", "keystore %s: account private key does not open: %v", id, err)
			}
			acctKey, err := hdkeychain.NewKeyFromString(string(acct))
			if err != nil || !acctKey.IsPrivate() {
				return vlib.Failf("c04:cannot-recover-with-passphrase", "keystore %s: decrypted account key is not a private extended key: %v", id, err)
			}
			s.addExt("accountKey", acctKey)
			// without the passphrase nothing opens
			var wrong snacl.SecretKey
			wrong.Unmarshal(am.masterKeyPriv.Marshal())
			wp := []byte(m.PubPass)
			if err := wrong.DeriveKey(&wp); err == nil {
				return vlib.Failf("c04:opens-without-private-passphrase", "keystore %s: master private key derivable with the public passphrase", id)
			}
			if _, err := wrong.Decrypt(am.cryptoKeyPrivEncrypted); err == nil {
				return vlib.Failf("c04:opens-without-private-passphrase", "keystore %s: private crypto key opens with a key derived from another passphrase", id)
			}
			// branch and child private keys
			mk := m.Ks[id]
			for b := uint32(0); b < 2; b++ {
				br, err := acctKey.Child(b)
				if err != nil {
					continue
				}
				s.addExt(fmt.Sprintf("branchKey%d", b), br)
				if mk == nil {
					continue
				}
				for i := range mk.Br[b] {
					if ch, err := br.Child(uint32(i)); err == nil {
						s.addExt(fmt.Sprintf("childKey%d/%d", b, i), ch)
					}
				}
			}
			if seed, ok := s.seeds[id]; ok {
				s.addBytes("seed", seed)
				if root, err := hdkeychain.NewMaster(seed, config.ChainParams); err == nil {
					s.addExt("masterHDKey", root)
					if ct, err := deriveCoinTypeKey(root, Net2KeyScope[config.ChainParams.HDCoinType]); err == nil {
						s.addExt("coinTypeKey", ct)
					}
				}
			}
		}
	}
	return nil
}

func (s *vfC04State) scanBuf(where string, buf []byte) *vlib.Failure {
	s.bytesSeen += int64(len(buf))
	for _, n := range s.needles {
		if bytes.Contains(buf, n.b) {
			return vlib.Failf("leak:"+strings.SplitN(n.what, "(", 2)[0]+":"+strings.SplitN(where, ":", 2)[0], "%s contains %s in the clear", where, n.what)
		}
	}
	return nil
}

func (s *vfC04State) scan(e *vfEnv, where string) *vlib.Failure {
	s.scans++
	for _, w := range e.w {
		// raw files
		var ff *vlib.Failure
		filepath.Walk(w.dir, func(p string, fi os.FileInfo, err error) error {
			if err != nil || fi.IsDir() || ff != nil {
				return nil
			}
			b, err := os.ReadFile(p)
			if err == nil {
				ff = s.scanBuf(fmt.Sprintf("store-file:%s (%s)", filepath.Base(p), where), b)
			}
			return nil
		})
		if ff != nil {
			return ff
		}
		// logical dump (compressed table blocks cannot hide a hit)
		if l, ok := w.store.(*ldb.LevelDB); ok {
			var dump bytes.Buffer
			it := l.LDb.NewIterator(nil, nil)
			var pf *vlib.Failure
			for it.Next() {
				dump.Write(it.Key())
				dump.WriteByte('\n')
				dump.Write(it.Value())
				dump.WriteByte('\n')
				if pf == nil {
					pf = s.openWithPublicKeys(fmt.Sprintf("store value of key %q (%s)", it.Key(), where), it.Value())
				}
			}
			it.Release()
			if pf != nil {
				return pf
			}
			if f := s.scanBuf("store-dump:"+where, dump.Bytes()); f != nil {
				return f
			}
			// positive control: public identifiers are in the store in the clear
			for id := range w.m.Ks {
				if !bytes.Contains(dump.Bytes(), []byte(id)) {
					return vlib.Failf("harness:positive-control", "%s: keystore id %s not found by the scanner in the store dump", where, id)
				}
			}
		}
	}
	for ; s.scannedEx < len(e.exports); s.scannedEx++ {
		if f := s.scanBuf(fmt.Sprintf("export:#%d (%s)", s.scannedEx, where), e.exports[s.scannedEx].JSON); f != nil {
			return f
		}
	}
	// exports made earlier must not contain secrets that came into existence later either (e.g. new passphrase)
	for i, ex := range e.exports {
		if f := s.scanBuf(fmt.Sprintf("export:#%d (%s)", i, where), ex.JSON); f != nil {
			return f
		}
		if ks, err := GetKeystoreFromJson(ex.JSON); err == nil {
			for _, hx := range []string{ks.Crypto.MasterHDPrivKeyEnc, ks.Crypto.CryptoKeyPrivEnc, ks.Crypto.CryptoKeyPubEnc} {
				if raw, err := hex.DecodeString(hx); err == nil {
					if f := s.openWithPublicKeys(fmt.Sprintf("export #%d (%s)", i, where), raw); f != nil {
						return f
					}
				}
			}
		}
	}
	// new log output
	files, _ := filepath.Glob(filepath.Join(vfLogDir, "*"))
	for _, lf := range files {
		fi, err := os.Stat(lf)
		if err != nil || fi.IsDir() {
			continue
		}
		f, err := os.Open(lf)
		if err != nil {
			continue
		}
		off := s.logOff - 4096
		if off < 0 {
			off = 0
		}
		f.Seek(off, 0)
		buf := make([]byte, fi.Size()-off)
		n, _ := f.Read(buf)
		f.Close()
		buf = buf[:n]
		s.errLines += bytes.Count(buf, []byte("level=error"))
		if ff := s.scanBuf("log:"+filepath.Base(lf)+" ("+where+")", buf); ff != nil {
			return ff
		}
		s.logOff = fi.Size()
	}
	return nil
}

var vfC04Cfg = &vfGenCfg{MaxOps: 18, TwoWallets: true, BadPass: true, NoRndPass: true, NoNilSeed: true,
	Weights: map[string]int{"new": 5, "next": 5, "gen": 3, "remark": 2, "chpriv": 4, "chpub": 3, "delete": 2, "export": 4, "import": 3, "xfer": 5,
		"lock": 2, "unlock": 5, "restart": 3, "sign": 2}}

func vfC04Run(p vfWProg, c *vlib.Ctx) *vlib.Failure {
	st := &vfC04State{have: map[string]bool{}, seeds: map[string][]byte{}}
	// start scanning the log at its current end
	if files, _ := filepath.Glob(filepath.Join(vfLogDirOrInit(), "*")); len(files) > 0 {
		if fi, err := os.Stat(files[0]); err == nil {
			st.logOff = fi.Size()
		}
	}
	// every passphrase literal of the program is a secret the user typed
	for _, op := range p.Ops {
		for _, sel := range []string{op.Pass, op.New} {
			if strings.HasPrefix(sel, "lit:") && ValidatePassphrase([]byte(sel[4:])) {
				st.addRaw("passphrase", []byte(sel[4:]))
			}
		}
	}
	opt := &vfOpt{}
	step := 0
	opt.AfterStep = func(e *vfEnv, op *vfWOp) *vlib.Failure {
		step++
		if op.K == "new" && len(op.Seed) == 32 {
			for _, w := range e.w {
				if id, ok := w.m.SeedID[hex.EncodeToString(op.Seed)]; ok {
					st.seeds[id] = append([]byte(nil), op.Seed...)
				}
			}
		}
		if f := st.collect(e, op); f != nil {
			return f
		}
		return st.scan(e, fmt.Sprintf("after step %d %s", step, op.K))
	}
	e, f := vfRunWallet(&p, c, opt)
	if e != nil {
		e.labels()
		c.LabelN("needles", len(st.needles))
		c.LabelN("scans", st.scans)
		c.LabelN("ciphertexts-opened-with-public-keys", st.pubOpened)
		c.LabelN("error-log-lines", st.errLines)
		c.LabelN("kilobytes-scanned", int(st.bytesSeen/1024))
		if e.st.importsOK > 0 && e.st.privChanges+e.st.pubChanges > 0 && st.errLines > 0 {
			c.NonTrivial()
		}
	}
	return f
}

func vfLogDirOrInit() string { vfSetup(); return vfLogDir }

var vfC04Spec = vlib.Spec[vfWProg]{
	Prop: "C04", Name: "leak-scan",
	Rule: "wallet histories (two wallets; create with known seeds, addresses, plot keys, passphrase changes, export/import, restarts, failing calls that log at ERROR level) with logging at trace level; after every step all store files (raw + logical dump), all exports and the new log output are searched for every secret collected in-package (seed, master/coin/account/branch/child private keys as xprv string, scalar raw/hex/HEX/%v/decimal, both crypto keys, both scrypt master keys, all current, superseded and typed passphrases); positive control: public keystore ids must be found; decrypt chain with the private passphrase must work and must fail with another passphrase; non-trivial = history with a successful import AND a passphrase change AND at least one ERROR-level log line; distinct = distinct program JSON",
	Gen:  func(t *rapid.T) vfWProg { return vfGenWProg(t, vfC04Cfg) },
	Run:  vfC04Run,
}

func TestVerif_C04(t *testing.T) { vlib.Both(t, vfC04Spec) }
