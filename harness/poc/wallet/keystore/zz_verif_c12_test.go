package keystore

// C12 — wallet operations are atomic under crashes and storage errors (DESIGN.md §4 C12, §3.5).
// For a generated history prefix and one target operation, EVERY bucket write and every commit of the target
// operation is hit with every fault kind (write error, commit error, crash before commit, crash after commit)
// on a fresh copy of the store; afterwards the wallet must reopen and equal the model before or after the
// operation in full, and the running instance must show the prior state when an error was reported.

import (
	"errors"
	"fmt"
	"io"
	"os"
	"path/filepath"
	"testing"

	"massnet.org/mass/config"
	walletdb "massnet.org/mass/poc/wallet/db"

	"pgregory.net/rapid"
	"verif/vlib"
)

// ---- fault-injecting store --------------------------------------------------------------------------

type vfFault struct {
	Kind string // "write-error" | "commit-error" | "crash-before-commit" | "crash-after-commit"
	K    int    // 1-based ordinal of the write / commit to hit
}

type vfCrash struct{ where string }

var vfErrInjected = errors.New("verif: injected storage error")

type vfFDB struct {
	inner   walletdb.DB
	fault   *vfFault
	writes  int
	commits int
	fired   bool
}

func (d *vfFDB) Unwrap() walletdb.DB { return d.inner }
func (d *vfFDB) Close() error        { return d.inner.Close() }
func (d *vfFDB) arm(f *vfFault)      { d.fault, d.writes, d.commits, d.fired = f, 0, 0, false }
func (d *vfFDB) BeginReadTx() (walletdb.ReadTransaction, error) {
	return d.inner.BeginReadTx()
}
func (d *vfFDB) BeginTx() (walletdb.DBTransaction, error) {
	tx, err := d.inner.BeginTx()
	if err != nil {
		return nil, err
	}
	return &vfFTx{d: d, tx: tx}, nil
}

// write is called before every mutating bucket call; it returns an error to inject.
func (d *vfFDB) write() error {
	d.writes++
	if d.fault != nil && d.fault.Kind == "write-error" && d.writes == d.fault.K {
		d.fired = true
		return vfErrInjected
	}
	return nil
}

type vfFTx struct {
	d  *vfFDB
	tx walletdb.DBTransaction
}

func (t *vfFTx) Commit() error {
	d := t.d
	d.commits++
	if d.fault != nil && d.commits == d.fault.K {
		switch d.fault.Kind {
		case "commit-error":
			d.fired = true
			t.tx.Rollback()
			return vfErrInjected
		case "crash-before-commit":
			d.fired = true
			t.tx.Rollback() // nothing becomes durable; release goleveldb's writer lock so the store can be closed
			panic(vfCrash{"before commit"})
		case "crash-after-commit":
			d.fired = true
			if err := t.tx.Commit(); err != nil {
				return err
			}
			panic(vfCrash{"after commit"})
		}
	}
	return t.tx.Commit()
}
func (t *vfFTx) Rollback() error                { return t.tx.Rollback() }
func (t *vfFTx) BucketNames() ([]string, error) { return t.tx.BucketNames() }
func (t *vfFTx) TopLevelBucket(name string) walletdb.Bucket {
	return t.wrap(t.tx.TopLevelBucket(name))
}
func (t *vfFTx) FetchBucket(meta walletdb.BucketMeta) walletdb.Bucket {
	return t.wrap(t.tx.FetchBucket(meta))
}
func (t *vfFTx) CreateTopLevelBucket(name string) (walletdb.Bucket, error) {
	if err := t.d.write(); err != nil {
		return nil, err
	}
	b, err := t.tx.CreateTopLevelBucket(name)
	return t.wrap(b), err
}
func (t *vfFTx) DeleteTopLevelBucket(name string) error {
	if err := t.d.write(); err != nil {
		return err
	}
	return t.tx.DeleteTopLevelBucket(name)
}
func (t *vfFTx) wrap(b walletdb.Bucket) walletdb.Bucket {
	if b == nil {
		return nil
	}
	return &vfFBucket{t: t, b: b}
}

type vfFBucket struct {
	t *vfFTx
	b walletdb.Bucket
}

func (b *vfFBucket) NewBucket(name string) (walletdb.Bucket, error) {
	if err := b.t.d.write(); err != nil {
		return nil, err
	}
	nb, err := b.b.NewBucket(name)
	return b.t.wrap(nb), err
}
func (b *vfFBucket) Bucket(name string) walletdb.Bucket { return b.t.wrap(b.b.Bucket(name)) }
func (b *vfFBucket) BucketNames() ([]string, error)     { return b.b.BucketNames() }
func (b *vfFBucket) DeleteBucket(name string) error {
	if err := b.t.d.write(); err != nil {
		return err
	}
	return b.b.DeleteBucket(name)
}
func (b *vfFBucket) Put(key, value []byte) error {
	if err := b.t.d.write(); err != nil {
		return err
	}
	return b.b.Put(key, value)
}
func (b *vfFBucket) Delete(key []byte) error {
	if err := b.t.d.write(); err != nil {
		return err
	}
	return b.b.Delete(key)
}
func (b *vfFBucket) Get(key []byte) ([]byte, error) { return b.b.Get(key) }
func (b *vfFBucket) Clear() error {
	if err := b.t.d.write(); err != nil {
		return err
	}
	return b.b.Clear()
}
func (b *vfFBucket) GetByPrefix(p []byte) ([]*walletdb.Entry, error) { return b.b.GetByPrefix(p) }
func (b *vfFBucket) GetBucketMeta() walletdb.BucketMeta              { return b.b.GetBucketMeta() }

// ---- model cloning ---------------------------------------------------------------------------------

func (m *vfModel) clone() *vfModel {
	c := &vfModel{PubPass: m.PubPass, PrivPass: m.PrivPass, OldPriv: append([]string(nil), m.OldPriv...), Unlocked: m.Unlocked,
		Ks: map[string]*vfMKs{}, Order: append([]string(nil), m.Order...), Observed: map[string]*[2]map[int]vfMKey{}, SeedID: map[string]string{}}
	for id, k := range m.Ks {
		nk := &vfMKs{ID: k.ID, Remark: k.Remark}
		for b := 0; b < 2; b++ {
			nk.Br[b] = append([]vfMKey(nil), k.Br[b]...)
			nk.IssuedLocked[b] = append([]bool(nil), k.IssuedLocked[b]...)
		}
		c.Ks[id] = nk
	}
	for id, o := range m.Observed {
		no := &[2]map[int]vfMKey{{}, {}}
		for b := 0; b < 2; b++ {
			for i, k := range o[b] {
				no[b][i] = k
			}
		}
		c.Observed[id] = no
	}
	for s, id := range m.SeedID {
		c.SeedID[s] = id
	}
	return c
}

func vfCopyDir(src, dst string) error {
	return filepath.Walk(src, func(p string, fi os.FileInfo, err error) error {
		if err != nil {
			return err
		}
		rel, _ := filepath.Rel(src, p)
		t := filepath.Join(dst, rel)
		if fi.IsDir() {
			return os.MkdirAll(t, 0o755)
		}
		if fi.Name() == "LOCK" {
			return os.WriteFile(t, nil, 0o644)
		}
		in, err := os.Open(p)
		if err != nil {
			return err
		}
		defer in.Close()
		out, err := os.Create(t)
		if err != nil {
			return err
		}
		defer out.Close()
		_, err = io.Copy(out, in)
		return err
	})
}

// ---- case ------------------------------------------------------------------------------------------

type vfC12Case struct {
	Prefix vfWProg `json:"prefix"`
	Target vfWOp   `json:"target"`
	// Only, when set, restricts the enumeration to one fault (used by replays of a shrunk failure)
	Only *vfFault `json:"only,omitempty"`
}

var vfC12Targets = []string{"new", "next", "next", "gen", "remark", "chpriv", "chpub", "delete", "import", "import"}

func vfGenC12(t *rapid.T) vfC12Case {
	cfg := &vfGenCfg{MaxOps: 9, TwoWallets: false,
		Weights: map[string]int{"new": 5, "next": 6, "gen": 3, "remark": 2, "chpriv": 2, "chpub": 1, "delete": 1, "export": 1, "xfer": 1, "lock": 2, "unlock": 4, "restart": 1}}
	c := vfC12Case{Prefix: vfGenWProg(t, cfg)}
	// operations that touch every keystore (passphrase changes) or pick one of several are only interesting on a
	// wallet with several keystores: half of the histories get one or two more
	for i, n := 0, rapid.SampledFrom([]int{0, 0, 1, 2}).Draw(t, "moreKeystores"); i < n; i++ {
		c.Prefix.Ops = append(c.Prefix.Ops, vfWOp{K: "new", Pass: "cur", S: rapid.SampledFrom(vfRemarks).Draw(t, "mremark"), Seed: rapid.SliceOfN(rapid.Byte(), 32, 32).Draw(t, "mseed")})
	}
	kind := rapid.SampledFrom(vfC12Targets).Draw(t, "target")
	op := vfWOp{K: kind}
	switch kind {
	case "new":
		op.Seed = rapid.SliceOfN(rapid.Byte(), 32, 32).Draw(t, "tseed")
		op.Pass = "cur"
		op.S = rapid.SampledFrom(vfRemarks).Draw(t, "tremark")
	case "next":
		op.Ks = rapid.IntRange(0, 2).Draw(t, "tks")
		op.Int = rapid.Bool().Draw(t, "tint")
		op.N = rapid.IntRange(1, 4).Draw(t, "tn")
	case "remark":
		op.Ks = rapid.IntRange(0, 2).Draw(t, "tks")
		op.S = rapid.SampledFrom(vfRemarks).Draw(t, "tremark")
	case "chpriv":
		op.Pass = "cur"
		op.New = "lit:" + rapid.SampledFrom(vfPassPool[1:]).Draw(t, "tnew")
	case "chpub":
		op.Pass = "pub"
		op.New = "lit:" + rapid.SampledFrom(vfPubPool[1:]).Draw(t, "tnew")
	case "delete":
		op.Ks = rapid.IntRange(0, 2).Draw(t, "tks")
		op.Pass = "cur"
	case "import":
		// prefix gets: more keys, export, delete; the target is the import of that file
		ks := rapid.IntRange(0, 2).Draw(t, "tks")
		c.Prefix.Ops = append(c.Prefix.Ops,
			vfWOp{K: "next", Ks: ks, N: rapid.IntRange(0, 3).Draw(t, "pre1")},
			vfWOp{K: "next", Ks: ks, Int: true, N: rapid.IntRange(0, 3).Draw(t, "pre2")},
			vfWOp{K: "export", Ks: ks, Pass: "cur"}, vfWOp{K: "delete", Ks: ks, Pass: "cur"})
		op.Ex = -1
		op.Pass = "export"
		op.New = "auto"
	}
	c.Target = op
	return c
}

type vfC12Out struct {
	crashed bool
	err     error
	failure *vlib.Failure
}

// vfC12Exec runs the target on a fresh copy of the snapshot. With fault == nil it goes through the engine's
// step (model expectations apply) and returns the model after; otherwise the raw call is made.
func vfC12Exec(base *vfEnv, snap string, m0 *vfModel, target *vfWOp, fault *vfFault, n int) (fdb *vfFDB, e2 *vfEnv, out vfC12Out, dir string) {
	dir = filepath.Join(base.root, fmt.Sprintf("run%d", n), "keystore")
	if err := vfCopyDir(snap, dir); err != nil {
		out.failure = vlib.Failf("harness:copy", "%v", err)
		return
	}
	inner, err := vfOpenLevel(dir, false)
	if err != nil {
		out.failure = vlib.Failf("harness:open-copy", "%v", err)
		return
	}
	fdb = &vfFDB{inner: inner}
	kmc, err := NewKeystoreManagerForPoC(fdb, []byte(m0.PubPass), config.ChainParams)
	if err != nil {
		inner.Close()
		out.failure = vlib.Failf("c12:snapshot-does-not-open", "the fault-free prefix left a store that does not open: %v", err)
		return
	}
	m := m0.clone()
	if m.Unlocked {
		if err := kmc.Unlock([]byte(m.PrivPass)); err != nil && len(m.Order) > 0 {
			inner.Close()
			out.failure = vlib.Failf("harness:unlock-copy", "%v", err)
			return
		}
	}
	w := &vfW{idx: 0, dir: dir, store: fdb, kmc: kmc, m: m}
	e2 = &vfEnv{c: base.c, opt: &vfOpt{}, root: base.root, seenPub: map[string]bool{}, exports: base.exports, w: []*vfW{w}}
	fdb.arm(fault)
	func() {
		defer func() {
			if r := recover(); r != nil {
				if _, ok := r.(vfCrash); ok {
					out.crashed = true
					return
				}
				panic(r)
			}
		}()
		if fault == nil {
			out.failure = e2.step(0, target)
		} else {
			out.err = e2.raw(w, target)
		}
	}()
	return
}

// raw performs the API call of a mutating operation without touching the model.
func (e *vfEnv) raw(w *vfW, op *vfWOp) error {
	m := w.m
	id := vfBogusID
	if mk := m.pick(op.Ks); mk != nil {
		id = mk.ID
	}
	switch op.K {
	case "new":
		_, err := w.kmc.NewKeystore([]byte(e.pass(w, op.Pass)), append([]byte(nil), op.Seed...), op.S, config.ChainParams, fastScryptVf)
		return err
	case "next":
		_, err := w.kmc.NextAddresses(id, op.Int, uint32(op.N))
		return err
	case "gen":
		_, _, err := w.kmc.GenerateNewPublicKey()
		return err
	case "remark":
		return w.kmc.ChangeRemark(id, op.S)
	case "chpriv":
		return w.kmc.ChangePrivPassphrase([]byte(e.pass(w, op.Pass)), []byte(e.pass(w, op.New)), fastScryptVf)
	case "chpub":
		return w.kmc.ChangePubPassphrase([]byte(e.pass(w, op.Pass)), []byte(e.pass(w, op.New)), fastScryptVf)
	case "delete":
		ok, err := w.kmc.DeleteKeystore(id, []byte(e.pass(w, op.Pass)))
		if err == nil && !ok {
			return errors.New("DeleteKeystore returned false")
		}
		return err
	case "import":
		if len(e.exports) == 0 {
			return errors.New("no export")
		}
		ex := e.exports[(op.Ex+len(e.exports))%len(e.exports)]
		nw := ""
		if len(m.Order) > 0 && m.PrivPass != ex.Pass {
			nw = m.PrivPass
		}
		_, _, err := w.kmc.ImportKeystore(ex.JSON, []byte(ex.Pass), []byte(nw))
		return err
	}
	return fmt.Errorf("raw: unsupported %s", op.K)
}

func vfC12Run(cs vfC12Case, c *vlib.Ctx) *vlib.Failure {
	e, err := vfNewEnv(&cs.Prefix, c, &vfOpt{})
	if err != nil {
		return vlib.Failf("harness:setup", "%v", err)
	}
	defer e.close()
	for i := range cs.Prefix.Ops {
		if f := e.step(i, &cs.Prefix.Ops[i]); f != nil {
			return f
		}
	}
	w0 := e.w[0]
	m0 := w0.m.clone()
	w0.store.Close()
	w0.store = nil
	snap := w0.dir
	if cs.Target.K == "gen" && len(m0.Order) > 1 {
		// GenerateNewPublicKey picks "the first" keystore of a Go map, so with several keystores the state after is
		// not a function of the history; the same transaction is exercised deterministically through NextAddresses
		cs.Target = vfWOp{K: "next", Ks: cs.Target.Ks, N: 1}
		c.Label("gen-replaced-by-next(multi-keystore)")
	}
	if cs.Target.K == "import" && len(e.exports) == 0 {
		c.Label("target-import-without-export")
		return nil
	}

	// dry run: effect, number of writes and commits
	fdb, e1, out, _ := vfC12Exec(e, snap, m0, &cs.Target, nil, 0)
	if out.failure != nil {
		if fdb != nil {
			fdb.inner.Close()
		}
		return out.failure
	}
	m1 := e1.w[0].m.clone()
	W, C := fdb.writes, fdb.commits
	fdb.inner.Close()
	c.Label("target:" + cs.Target.K)
	if len(m0.Order) >= 2 {
		c.Label("target:" + cs.Target.K + ":on->=2-keystores")
	}
	if W == 0 {
		c.Label("target-without-writes")
	}
	var faults []vfFault
	for k := 1; k <= W; k++ {
		faults = append(faults, vfFault{"write-error", k})
	}
	for k := 1; k <= C; k++ {
		faults = append(faults, vfFault{"commit-error", k}, vfFault{"crash-before-commit", k}, vfFault{"crash-after-commit", k})
	}
	if cs.Only != nil {
		faults = []vfFault{*cs.Only}
	}
	eq := func(w *vfW, m *vfModel, unlocked bool, where string) *vlib.Failure {
		mm := m.clone()
		mm.Unlocked = unlocked
		w.m = mm
		e3 := &vfEnv{c: c, opt: &vfOpt{}, w: []*vfW{w}}
		return e3.compare(w, where)
	}
	for n, f := range faults {
		f := f
		where := fmt.Sprintf("target %s, fault %s@%d (of %d writes, %d commits)", cs.Target.K, f.Kind, f.K, W, C)
		fdb, e2, out, dir := vfC12Exec(e, snap, m0, &cs.Target, &f, n+1)
		if out.failure != nil {
			if fdb != nil {
				fdb.inner.Close()
			}
			return out.failure
		}
		c.Label("fault:" + f.Kind)
		if !fdb.fired {
			fdb.inner.Close()
			return vlib.Failf("harness:fault-not-reached", "%s: fault point was not reached (non-deterministic write count?)", where)
		}
		w := e2.w[0]
		sig := cs.Target.K + ":" + f.Kind
		retried := false // the target was called again without fault after a reported error, and reported success
		if !out.crashed {
			// the process continued: the running instance must show the prior state after a reported error, the
			// complete effect after a reported success
			if out.err != nil {
				if ff := eq(w, m0, m0.Unlocked, where); ff != nil {
					fdb.inner.Close()
					return vlib.Failf("running-instance-not-prior-state:"+sig, "%s: the call returned %q but the running wallet no longer shows the prior state: %s", where, out.err, ff.Msg)
				}
				// the passphrase in force belongs to the state: after a reported failure the running instance still
				// unlocks with the prior passphrase and not with the one that never came into force
				if len(m0.Order) > 0 {
					w.kmc.Lock()
					if err := w.kmc.Unlock([]byte(m0.PrivPass)); err != nil {
						fdb.inner.Close()
						return vlib.Failf("running-instance-not-prior-state:"+sig, "%s: the call returned %q but the running wallet no longer unlocks with the prior private passphrase: %v", where, out.err, err)
					}
					w.kmc.Lock()
					if m1.PrivPass != m0.PrivPass && m1.PrivPass != "" {
						if err := w.kmc.Unlock([]byte(m1.PrivPass)); err == nil {
							fdb.inner.Close()
							return vlib.Failf("running-instance-not-prior-state:"+sig, "%s: the call returned %q, yet the running wallet unlocks with the passphrase that never came into force", where, out.err)
						}
						w.kmc.Lock()
					}
				}
				// the caller retries after the storage error went away: a retry that reports success must have the
				// complete effect, on the running instance and (below) after the restart
				if m0.Unlocked && len(m0.Order) > 0 {
					if err := w.kmc.Unlock([]byte(m0.PrivPass)); err != nil {
						fdb.inner.Close()
						return vlib.Failf("running-instance-not-prior-state:"+sig, "%s: cannot unlock again with the prior passphrase: %v", where, err)
					}
				}
				fdb.arm(nil)
				if rerr := e2.raw(w, &cs.Target); rerr != nil {
					c.Label("retry-after-error:refused")
				} else {
					c.Label("retry-after-error:ok")
					retried = true
					if ff := eq(w, m1, m1.Unlocked, where); ff != nil {
						fdb.inner.Close()
						return vlib.Failf("success-without-effect:"+sig+":retry", "%s: the call returned %q, the retry without fault reported success but the running wallet does not show the complete effect: %s", where, out.err, ff.Msg)
					}
				}
			} else {
				if ff := eq(w, m1, m1.Unlocked, where); ff != nil {
					fdb.inner.Close()
					return vlib.Failf("success-without-effect:"+sig, "%s: the call reported success but the running wallet does not show the complete effect: %s", where, ff.Msg)
				}
			}
		}
		// restart: drop the manager, reopen the underlying store without faults
		fdb.inner.Close()
		inner, err := vfOpenLevel(dir, false)
		if err != nil {
			return vlib.Failf("after-fault:store-does-not-open:"+sig, "%s: %v", where, err)
		}
		var kmc *KeystoreManagerForPoC
		var openErr error
		for _, pub := range []string{m0.PubPass, m1.PubPass} {
			kmc, openErr = NewKeystoreManagerForPoC(inner, []byte(pub), config.ChainParams)
			if openErr == nil {
				break
			}
		}
		if openErr != nil {
			inner.Close()
			return vlib.Failf("after-fault:wallet-does-not-open:"+sig, "%s: the wallet opens with neither the old nor the new public passphrase: %v", where, openErr)
		}
		w2 := &vfW{idx: 0, dir: dir, store: inner, kmc: kmc}
		f0 := eq(w2, m0, false, where)
		f1 := eq(w2, m1, false, where)
		// passphrase behaviour belongs to the state: the restarted wallet must unlock with the passphrase of the
		// model it equals (and with no other)
		check := func(m *vfModel) *vlib.Failure {
			if len(m.Order) == 0 {
				return nil
			}
			if err := kmc.Unlock([]byte(m.PrivPass)); err != nil {
				return vlib.Failf("x", "Unlock with that state's private passphrase fails: %v", err)
			}
			kmc.Lock()
			return nil
		}
		if f0 == nil {
			f0 = check(m0)
		}
		if f1 == nil {
			f1 = check(m1)
		}
		inner.Close()
		switch {
		case retried:
			if f1 != nil {
				return vlib.Failf("acknowledged-effect-lost:"+sig+":retry", "%s: the call returned %q, the retry without fault reported success, but after restart the effect is not there: %s", where, out.err, f1.Msg)
			}
		case out.crashed || out.err != nil:
			if f0 != nil && f1 != nil {
				return vlib.Failf("partial-effect-after-restart:"+sig, "%s: after restart the wallet equals neither the state before (%s) nor the state after (%s)", where, f0.Msg, f1.Msg)
			}
		default:
			if f1 != nil {
				return vlib.Failf("acknowledged-effect-lost:"+sig, "%s: the call reported success but after restart the effect is not there: %s", where, f1.Msg)
			}
		}
		os.RemoveAll(filepath.Dir(dir))
	}
	c.LabelN("faults-injected", len(faults))
	if W >= 3 {
		c.NonTrivial()
	}
	return nil
}

var vfC12Spec = vlib.Spec[vfC12Case]{
	Prop: "C12", Name: "fault-enumeration",
	Rule: "generated fault-free history prefix (<=10 wallet operations incl. lock state, restarts, several keystores) followed by one target operation of every mutating kind (create, import, next addresses, plot key, remark, private/public passphrase change, delete); a dry run counts the bucket writes W and commits C of the target, then ALL W write errors and 3*C commit faults (commit error, crash before commit, crash after commit) are injected one at a time on a fresh copy of the store (exhaustive per history); oracle: full model equality (C02 comparison) of the restarted wallet with the state before or after, of the running instance with the prior state (including which private passphrase unlocks it) after a reported error, with the complete effect after a reported success; non-trivial = target operation with >=3 bucket writes (faults strictly inside are then all covered); distinct = distinct case JSON",
	Gen:  vfGenC12, Run: vfC12Run,
}

func TestVerif_C12(t *testing.T) { vlib.Both(t, vfC12Spec) }
