package keystore

// C14 — the wallet API is safe under concurrent use (DESIGN.md §4 C14). Built with -race.
// Generated concurrent programs (2-4 goroutines x 1-6 operations, start barrier, generated yields) run against a
// real wallet; oracles: (1) the race detector (reports are attributed by the driver), (2) no panic / runtime
// fatal, (3) the recorded call/return history is linearizable (porcupine) with respect to a sequential wallet
// model, (4) the reopened store shows the final counters.

import (
	"encoding/json"
	"fmt"
	"os"
	"runtime"
	"sort"
	"sync"
	"sync/atomic"
	"testing"
	"time"

	"github.com/anishathalye/porcupine"
	"massnet.org/mass/config"

	"pgregory.net/rapid"
	"verif/vlib"
)

type vfCOp struct {
	K   string `json:"k"`
	Ks  int    `json:"ks,omitempty"`
	N   int    `json:"n,omitempty"`
	Int bool   `json:"int,omitempty"`
	S   string `json:"s,omitempty"`
	Key int    `json:"key,omitempty"`
	Y   int    `json:"y,omitempty"` // yields before the call
}

type vfC14Prog struct {
	NKs      int       `json:"nks"`
	Pre      [2][2]int `json:"pre"` // initial key counts [ks][branch]
	Unlocked bool      `json:"unlocked"`
	// PreChange: before the concurrent phase the private passphrase is changed and changed back (in this process),
	// the way a wallet that has been running for a while looks
	PreChange bool      `json:"preChange,omitempty"`
	Threads   [][]vfCOp `json:"threads"`
	Procs     int       `json:"procs"`
}

const vfC14Pass = "Alpha1#passw"

var vfC14Kinds = []string{"gen", "gen", "gen", "next", "next", "sign", "sign", "signmsg", "ordinal", "addr", "count", "names", "managers", "remark", "getremark", "export", "lock", "unlock", "islocked", "verify", "spin", "spin"}

func vfGenC14(t *rapid.T) vfC14Prog {
	p := vfC14Prog{NKs: rapid.IntRange(1, 2).Draw(t, "nks"), Unlocked: rapid.IntRange(0, 3).Draw(t, "unlocked") != 0, Procs: rapid.SampledFrom([]int{1, 2, 4, 8}).Draw(t, "procs"),
		PreChange: rapid.IntRange(0, 2).Draw(t, "preChange") == 0}
	for k := 0; k < 2; k++ {
		for b := 0; b < 2; b++ {
			p.Pre[k][b] = rapid.IntRange(1, 3).Draw(t, "pre")
		}
	}
	nt := rapid.IntRange(2, 4).Draw(t, "threads")
	// a seventh of the programs concentrate on one kind of operation (so that calls of that kind really overlap)
	focus := ""
	if rapid.IntRange(0, 6).Draw(t, "focused") == 0 {
		focus = rapid.SampledFrom([]string{"export", "export", "sign", "next", "remark", "gen", "lockunlock", "lockunlock"}).Draw(t, "focus")
		p.NKs = 2
	}
	for i := 0; i < nt; i++ {
		n := rapid.IntRange(1, 6).Draw(t, "nops")
		var th []vfCOp
		for j := 0; j < n; j++ {
			op := vfCOp{K: rapid.SampledFrom(vfC14Kinds).Draw(t, "kind"), Ks: rapid.IntRange(0, 1).Draw(t, "ks"), Y: rapid.IntRange(0, 3).Draw(t, "yield")}
			if focus != "" && rapid.IntRange(0, 4).Draw(t, "onFocus") != 0 {
				op.K = focus
				op.Ks = (i + j) % 2
				if focus == "lockunlock" {
					op.K = []string{"lock", "unlock"}[(i+j)%2]
				}
			}
			switch op.K {
			case "next":
				op.N = rapid.SampledFrom([]int{1, 1, 2, 3, 5, 8}).Draw(t, "n")
				op.Int = rapid.Bool().Draw(t, "int")
			case "sign", "signmsg", "ordinal", "addr", "verify":
				op.Key = rapid.IntRange(0, 2).Draw(t, "key")
				op.Int = rapid.Bool().Draw(t, "int")
			case "remark":
				op.S = rapid.SampledFrom([]string{"", "r1", "r2", "r3"}).Draw(t, "remark")
			}
			th = append(th, op)
		}
		p.Threads = append(p.Threads, th)
	}
	return p
}

// ---- sequential model for porcupine ------------------------------------------------------------------

type vfC14State struct {
	Unlocked bool
	Cnt      [2][2]int
	Remark   [2]string
}

type vfC14In struct {
	Op vfCOp
}

type vfC14Out struct {
	Err    bool
	Ks     int
	A, B   int
	S      string
	Locked bool
}

func vfC14Step(st vfC14State, in vfC14In, out vfC14Out) (bool, vfC14State) {
	op := in.Op
	switch op.K {
	case "gen":
		if out.Err {
			return false, st
		}
		if out.Ks < 0 || out.Ks > 1 || st.Cnt[out.Ks][0] != out.A {
			return false, st
		}
		st.Cnt[out.Ks][0]++
		return true, st
	case "next":
		if out.Err {
			return false, st
		}
		b := 0
		if op.Int {
			b = 1
		}
		if out.A != st.Cnt[op.Ks][b] || out.B != op.N {
			return false, st
		}
		st.Cnt[op.Ks][b] += op.N
		return true, st
	case "sign", "signmsg":
		return out.Err == !st.Unlocked, st
	case "verify":
		return out.Err == !st.Unlocked, st
	case "count":
		return !out.Err && out.A == st.Cnt[op.Ks][0] && out.B == st.Cnt[op.Ks][1], st
	case "export":
		return !out.Err && out.A == st.Cnt[op.Ks][0] && out.B == st.Cnt[op.Ks][1] && out.S == st.Remark[op.Ks], st
	case "remark":
		if out.Err {
			return false, st
		}
		st.Remark[op.Ks] = op.S
		return true, st
	case "getremark":
		return out.S == st.Remark[op.Ks], st
	case "lock":
		st.Unlocked = false
		return true, st
	case "unlock":
		if out.Err {
			return st.Unlocked, st // redundant Unlock may fail (unspecified); a needed one may not
		}
		st.Unlocked = true
		return true, st
	case "islocked":
		return out.Locked == !st.Unlocked, st
	}
	// ordinal, addr, names, managers: constant answers, judged directly
	return !out.Err, st
}

var vfC14Model = porcupine.Model{
	Init: func() interface{} { return vfC14State{} },
	Step: func(s, in, out interface{}) (bool, interface{}) {
		return vfC14Step(s.(vfC14State), in.(vfC14In), out.(vfC14Out))
	},
	Equal: func(a, b interface{}) bool { return a.(vfC14State) == b.(vfC14State) },
	DescribeOperation: func(in, out interface{}) string {
		i, _ := json.Marshal(in.(vfC14In).Op)
		o, _ := json.Marshal(out)
		return string(i) + " -> " + string(o)
	},
}

func vfC14Run(p vfC14Prog, c *vlib.Ctx) *vlib.Failure {
	vfSetup()
	dir, err := os.MkdirTemp("", "vfc14")
	if err != nil {
		panic(err)
	}
	defer os.RemoveAll(dir)
	path := dir + "/keystore"
	store, err := vfOpenLevel(path, true)
	if err != nil {
		return vlib.Failf("harness:open", "%v", err)
	}
	closed := false
	defer func() {
		if !closed {
			store.Close()
		}
	}()
	kmc, err := NewKeystoreManagerForPoC(store, []byte(vfPubPool[0]), config.ChainParams)
	if err != nil {
		return vlib.Failf("harness:open", "%v", err)
	}
	var ids []string
	var keys [2][2][]*ManagedAddress
	init := vfC14State{Unlocked: p.Unlocked}
	for k := 0; k < p.NKs; k++ {
		seed := make([]byte, 32)
		seed[0], seed[31] = byte(k+1), 0x5a
		id, err := kmc.NewKeystore([]byte(vfC14Pass), seed, "", config.ChainParams, fastScryptVf)
		if err != nil {
			return vlib.Failf("harness:new", "%v", err)
		}
		ids = append(ids, id)
		for b := 0; b < 2; b++ {
			mas, err := kmc.NextAddresses(id, b == 1, uint32(p.Pre[k][b]))
			if err != nil {
				return vlib.Failf("harness:next", "%v", err)
			}
			keys[k][b] = mas
			init.Cnt[k][b] = len(mas)
		}
	}
	if p.PreChange {
		tmp := "Bravo2$passw0rd"
		if err := kmc.ChangePrivPassphrase([]byte(vfC14Pass), []byte(tmp), fastScryptVf); err != nil {
			return vlib.Failf("harness:prechange", "%v", err)
		}
		if err := kmc.ChangePrivPassphrase([]byte(tmp), []byte(vfC14Pass), fastScryptVf); err != nil {
			return vlib.Failf("harness:prechange", "%v", err)
		}
		c.Label("passphrase-changed-before")
	}
	if p.Unlocked {
		if err := kmc.Unlock([]byte(vfC14Pass)); err != nil {
			return vlib.Failf("harness:unlock", "%v", err)
		}
	}
	idIdx := map[string]int{}
	for i, id := range ids {
		idIdx[id] = i
	}
	old := runtime.GOMAXPROCS(p.Procs)
	defer runtime.GOMAXPROCS(old)

	var clock int64
	var mu sync.Mutex
	var hist []porcupine.Operation
	var direct *vlib.Failure
	fail := func(f *vlib.Failure) {
		mu.Lock()
		if direct == nil {
			direct = f
		}
		mu.Unlock()
	}
	start := make(chan struct{})
	var wg sync.WaitGroup
	mutators := 0
	active := int32(len(p.Threads)) // goroutines currently not inside a "spin" observation
	for ti, th := range p.Threads {
		for _, op := range th {
			switch op.K {
			case "gen", "next", "remark", "lock", "unlock":
				mutators++
				goto next
			}
		}
	next:
		wg.Add(1)
		go func(ti int, th []vfCOp) {
			defer wg.Done()
			defer atomic.AddInt32(&active, -1)
			defer func() {
				if r := recover(); r != nil {
					fail(vlib.Failf("panic-in-wallet-call", "goroutine %d: %v", ti, r))
				}
			}()
			<-start
			for _, op := range th {
				if op.Ks >= p.NKs {
					op.Ks = 0
				}
				for y := 0; y < op.Y; y++ {
					runtime.Gosched()
				}
				b := 0
				if op.Int {
					b = 1
				}
				key := keys[op.Ks][b][op.Key%len(keys[op.Ks][b])]
				if op.K == "spin" {
					// an observer: reads the address counts of one keystore repeatedly; every read is an operation of
					// the history, reads that repeat the previous answer are dropped (removing operations from a
					// linearizable history keeps it linearizable, so this cannot cause a false alarm)
					var am *AddrManager
					for _, x := range kmc.GetManagedAddrManager() {
						if x.Name() == ids[op.Ks] {
							am = x
						}
					}
					la, lb := -1, -1
					atomic.AddInt32(&active, -1)
					t0 := time.Now()
					for r := 0; r < 60000 && (r < 50 || (atomic.LoadInt32(&active) > 0 && time.Since(t0) < 2*time.Second)); r++ {
						call := atomic.AddInt64(&clock, 1)
						a, b := am.CountAddresses()
						ret := atomic.AddInt64(&clock, 1)
						if a != la || b != lb {
							la, lb = a, b
							mu.Lock()
							hist = append(hist, porcupine.Operation{ClientId: ti, Input: vfC14In{vfCOp{K: "count", Ks: op.Ks}}, Call: call, Output: vfC14Out{A: a, B: b}, Return: ret})
							mu.Unlock()
						}
						if r%64 == 63 {
							runtime.Gosched()
						}
					}
					atomic.AddInt32(&active, 1)
					continue
				}
				var out vfC14Out
				call := atomic.AddInt64(&clock, 1)
				switch op.K {
				case "gen":
					pk, ord, err := kmc.GenerateNewPublicKey()
					out.Err = err != nil
					out.A = int(ord)
					out.Ks = -1
					if err == nil {
						a := vfIndependentAddr(fmt.Sprintf("%x", pk.SerializeCompressed()))
						for _, am := range kmc.GetManagedAddrManager() {
							if _, e := am.Address(a); e == nil {
								out.Ks = idIdx[am.Name()]
							}
						}
					}
				case "next":
					mas, err := kmc.NextAddresses(ids[op.Ks], op.Int, uint32(op.N))
					out.Err = err != nil
					if err == nil && len(mas) > 0 {
						out.A, out.B = int(mas[0].derivationPath.Index), len(mas)
						for i, ma := range mas {
							if int(ma.derivationPath.Index) != out.A+i {
								fail(vlib.Failf("next:not-consecutive", "goroutine %d: indices not consecutive", ti))
							}
						}
					}
				case "sign", "signmsg":
					d := make([]byte, 32)
					d[0] = byte(ti)
					var err error
					if op.K == "sign" {
						sig, e := kmc.SignHash(key.pubKey, d)
						err = e
						if e == nil && !sig.Verify(d, key.pubKey) {
							fail(vlib.Failf("sign:does-not-verify", "goroutine %d: concurrent SignHash result does not verify", ti))
						}
					} else {
						_, err = kmc.SignMessage(key.pubKey, d)
					}
					out.Err = err != nil
				case "verify":
					_, err := kmc.VerifySig(nil, make([]byte, 31), key.pubKey) // wrong hash length: answers ErrAddrManagerLocked when locked
					out.Err = err == ErrAddrManagerLocked
				case "ordinal":
					ord, ok := kmc.GetPublicKeyOrdinal(key.pubKey)
					if !ok || ord != key.derivationPath.Index {
						fail(vlib.Failf("ordinal-changed", "goroutine %d: GetPublicKeyOrdinal=(%d,%v), expected %d", ti, ord, ok, key.derivationPath.Index))
					}
				case "addr":
					a, err := kmc.GetAddressByPubKey(key.pubKey)
					if err != nil || a != key.address {
						fail(vlib.Failf("address-changed", "goroutine %d: GetAddressByPubKey=(%s,%v)", ti, a, err))
					}
				case "count":
					for _, am := range kmc.GetManagedAddrManager() {
						if am.Name() == ids[op.Ks] {
							out.A, out.B = am.CountAddresses()
						}
					}
				case "names":
					n := kmc.ListKeystoreNames()
					sort.Strings(n)
					w := append([]string(nil), ids...)
					sort.Strings(w)
					if fmt.Sprint(n) != fmt.Sprint(w) {
						fail(vlib.Failf("names-changed", "goroutine %d: ListKeystoreNames=%v", ti, n))
					}
				case "managers":
					for _, am := range kmc.GetManagedAddrManager() {
						_ = am.ListAddresses()
						_ = am.ManagedAddresses()
					}
				case "remark":
					out.Err = kmc.ChangeRemark(ids[op.Ks], op.S) != nil
				case "getremark":
					for _, am := range kmc.GetManagedAddrManager() {
						if am.Name() == ids[op.Ks] {
							out.S = am.Remarks()
						}
					}
				case "export":
					js, err := kmc.ExportKeystore(ids[op.Ks], []byte(vfC14Pass))
					out.Err = err != nil
					if err == nil {
						ks, e := GetKeystoreFromJson(js)
						if e != nil {
							fail(vlib.Failf("export:bad-json", "%v", e))
						} else {
							out.A, out.B, out.S = int(ks.HDpath.ExternalChildNum), int(ks.HDpath.InternalChildNum), ks.Remark
						}
					}
				case "lock":
					kmc.Lock()
				case "unlock":
					out.Err = kmc.Unlock([]byte(vfC14Pass)) != nil
				case "islocked":
					out.Locked = kmc.IsLocked()
				}
				ret := atomic.AddInt64(&clock, 1)
				mu.Lock()
				hist = append(hist, porcupine.Operation{ClientId: ti, Input: vfC14In{op}, Call: call, Output: out, Return: ret})
				mu.Unlock()
			}
		}(ti, th)
	}
	close(start)
	done := make(chan struct{})
	go func() { wg.Wait(); close(done) }()
	select {
	case <-done:
	case <-time.After(60 * time.Second):
		buf := make([]byte, 1<<16)
		buf = buf[:runtime.Stack(buf, true)]
		return vlib.Failf("calls-did-not-return", "wallet calls still pending after 60s:\n%s", buf)
	}
	if direct != nil {
		return direct
	}
	model := vfC14Model
	model.Init = func() interface{} { return init }
	res, _ := porcupine.CheckOperationsVerbose(model, hist, 20*time.Second)
	if res == porcupine.Illegal {
		sort.Slice(hist, func(i, j int) bool { return hist[i].Call < hist[j].Call })
		var lines string
		for _, h := range hist {
			lines += fmt.Sprintf("  [%d,%d] g%d %s\n", h.Call, h.Return, h.ClientId, vfC14Model.DescribeOperation(h.Input, h.Output))
		}
		return vlib.Failf("not-linearizable", "the recorded history has no sequential explanation (initial state %+v):\n%s", init, lines)
	}
	if res == porcupine.Unknown {
		c.Label("linearizability-timeout")
	}
	// quiescent state: the lock flag and the key material of every keystore agree (a state no sequence of Lock and
	// Unlock calls can produce otherwise)
	locked := kmc.IsLocked()
	for k := 0; k < p.NKs; k++ {
		for b := 0; b < 2; b++ {
			if len(keys[k][b]) == 0 {
				continue
			}
			h := make([]byte, 32)
			h[0] = byte(k + 1)
			_, err := kmc.SignHash(keys[k][b][0].PubKey(), h)
			if (err != nil) != locked {
				return vlib.Failf("lock-state-inconsistent", "after the concurrent phase IsLocked()=%v but signing with a key of keystore %d (branch %d) returns %v", locked, k, b, err)
			}
		}
	}
	// final counters after reopen
	var want [2][2]int = init.Cnt
	for _, h := range hist {
		in, out := h.Input.(vfC14In), h.Output.(vfC14Out)
		switch in.Op.K {
		case "gen":
			if !out.Err && out.Ks >= 0 {
				want[out.Ks][0]++
			}
		case "next":
			if !out.Err {
				b := 0
				if in.Op.Int {
					b = 1
				}
				want[in.Op.Ks][b] += in.Op.N
			}
		}
	}
	store.Close()
	closed = true
	store2, err := vfOpenLevel(path, false)
	if err != nil {
		return vlib.Failf("reopen-failed", "%v", err)
	}
	defer store2.Close()
	kmc2, err := NewKeystoreManagerForPoC(store2, []byte(vfPubPool[0]), config.ChainParams)
	if err != nil {
		return vlib.Failf("reopen-failed", "%v", err)
	}
	for _, am := range kmc2.GetManagedAddrManager() {
		k := idIdx[am.Name()]
		e, i := am.CountAddresses()
		if e != want[k][0] || i != want[k][1] || int(am.branchInfo.nextExternalIndex) != want[k][0] || int(am.branchInfo.nextInternalIndex) != want[k][1] {
			return vlib.Failf("reopen-counters", "keystore %d after reopen has %d/%d addresses (next %d/%d), the acknowledged operations give %d/%d", k, e, i, am.branchInfo.nextExternalIndex, am.branchInfo.nextInternalIndex, want[k][0], want[k][1])
		}
	}
	c.LabelN("ops", len(hist))
	c.LabelN("goroutines", len(p.Threads))
	if mutators >= 2 {
		c.NonTrivial()
		c.Label("case:>=2-mutating-goroutines")
	}
	return nil
}

var vfC14Spec = vlib.Spec[vfC14Prog]{
	Prop: "C14", Name: "concurrent-programs", NoShrink: true,
	Rule: "generated concurrent programs: 2-4 goroutines x 1-6 operations from {plot key issuance, next addresses, sign hash/message, verify, ordinal/address lookup, listings, remark change/read, export, lock, unlock, IsLocked} on 1-2 keystores (in a third of the programs after a private passphrase change and change back in the same process), start barrier, generated yields and GOMAXPROCS in {1,2,4,8}; built with -race; oracles: race detector (reports attributed to repository frames by the driver), no panic, porcupine linearizability of the recorded call/return history against a sequential wallet model, lock flag and key material of every keystore agree at quiescence, counters after reopen; non-trivial = at least two goroutines contain a mutating operation; distinct = distinct program JSON",
	Gen:  vfGenC14, Run: vfC14Run,
}

func TestVerif_C14(t *testing.T) { vlib.Both(t, vfC14Spec) }
