package keystore

// C03 — private keys usable only with the current passphrase; Lock wipes them (DESIGN.md §4 C03).

import (
	"testing"

	"pgregory.net/rapid"
	"verif/vlib"
)

var vfC03Cfg = &vfGenCfg{MaxOps: 26, TwoWallets: true, BadPass: true,
	Weights: map[string]int{"new": 5, "next": 5, "gen": 3, "remark": 1, "chpriv": 6, "chpub": 2, "delete": 3, "export": 4, "import": 2, "xfer": 4,
		"lock": 5, "unlock": 8, "restart": 4, "sign": 6}}

var vfC03Spec = vlib.Spec[vfWProg]{
	Prop: "C03", Name: "passphrase-and-lock",
	Rule: "wallet histories in which every passphrase argument is drawn from {current, superseded, public, other well-formed, ill-formed}; oracles: privileged calls (sign, export, delete, change, unlock, create/import under the single-passphrase rule) succeed only with the current private passphrase, lock flags are all-or-nothing, and in-package inspection after every step shows that a locked keystore holds no private key, no private crypto key, no passphrase hash and no derived master key that opens its private crypto key; non-trivial = (>=2 keystores and a successful private passphrase change) or >=1 operation executed while locked; distinct = distinct program JSON",
	Gen:  func(t *rapid.T) vfWProg { return vfGenWProg(t, vfC03Cfg) },
	Run: func(p vfWProg, c *vlib.Ctx) *vlib.Failure {
		e, f := vfRunWallet(&p, c, &vfOpt{Secrets: true})
		if e != nil {
			e.labels()
			if (e.st.multiKs > 0 && e.st.privChanges > 0) || e.st.opsWhileLocked > 0 {
				c.NonTrivial()
			}
			if e.st.multiKs > 0 && e.st.privChanges > 0 {
				c.Label("case:multi-keystore+passphrase-change")
			}
		}
		return f
	},
}

func TestVerif_C03(t *testing.T) { vlib.Both(t, vfC03Spec) }
