package hdkeychain

// C18 — HD key derivation matches BIP32 and is self-consistent (DESIGN.md §4 C18).
// Differential test against an independent reference (verif/vlib: own secp256k1 + BIP32, self-validated on the
// published BIP32 test vectors 1-4 at start-up).

import (
	"bytes"
	"encoding/hex"
	"fmt"
	"testing"

	"massnet.org/mass/config"

	"pgregory.net/rapid"
	"verif/vlib"
)

type vfC18Case struct {
	Seed []byte   `json:"seed"`
	Path []uint32 `json:"path"`
	// Sibs[d] are derived from the same parent *object* before the path child of step d (a key object must give
	// the same children whatever was derived from it before)
	Sibs [][]uint32 `json:"sibs,omitempty"`
	// ZeroSibs: the sibling keys are wiped with Zero() after they have been compared (the keystore does that with
	// every index key it derives while scanning a branch); later derivations from the same parent must not care
	ZeroSibs bool `json:"zeroSibs,omitempty"`
}

var vfEdgeIdx = []uint32{0, 1, 2, 0x7fffffff, 0x7ffffffe, 0x80000000, 0x80000001, 0xffffffff, 44 + 0x80000000, 297 + 0x80000000, 1000000000}

func vfGenIdx(t *rapid.T, label string) uint32 {
	switch rapid.IntRange(0, 5).Draw(t, label+"Kind") {
	case 0, 1:
		return rapid.SampledFrom(vfEdgeIdx).Draw(t, label+"Edge")
	case 2:
		return rapid.Uint32().Draw(t, label+"Any")
	case 3:
		return 0x80000000 + rapid.Uint32Range(0, 50).Draw(t, label+"HardSmall")
	default:
		return rapid.Uint32Range(0, 50).Draw(t, label+"Small")
	}
}

// vfGenC18 draws a seed and a path; in a share of the cases the path is steered (with the reference, no
// randomness of its own) through a parent whose private key has a leading zero byte, followed by a further step.
func vfGenC18(t *rapid.T) vfC18Case {
	c := vfC18Case{Seed: rapid.SliceOfN(rapid.Byte(), 16, 64).Draw(t, "seed")}
	depth := rapid.SampledFrom([]int{1, 1, 2, 2, 3, 3, 4, 5, 6, 8, 8, 40}).Draw(t, "depth")
	for i := 0; i < depth; i++ {
		c.Path = append(c.Path, vfGenIdx(t, "idx"))
	}
	if depth <= 8 {
		for i := 0; i < depth+2; i++ {
			var sib []uint32
			for j := rapid.IntRange(0, 2).Draw(t, "nsib"); j > 0; j-- {
				sib = append(sib, vfGenIdx(t, "sib"))
			}
			c.Sibs = append(c.Sibs, sib)
		}
		c.ZeroSibs = rapid.Bool().Draw(t, "zeroSibs")
	}
	if rapid.IntRange(0, 3).Draw(t, "steer") == 0 {
		k, err := vlib.RefMaster(c.Seed)
		if err != nil {
			return c
		}
		pre := rapid.IntRange(0, 2).Draw(t, "steerAt")
		if pre > len(c.Path) {
			pre = len(c.Path)
		}
		for _, i := range c.Path[:pre] {
			if k, err = k.Child(i, false); err != nil {
				return c
			}
		}
		start := rapid.Uint32Range(0, 1<<20).Draw(t, "steerStart")
		hard := rapid.Bool().Draw(t, "steerHard")
		if hard {
			start |= 0x80000000
		}
		for j := uint32(0); j < 1500; j++ {
			ch, err := k.Child(start+j, false)
			if err != nil {
				continue
			}
			if ch.Priv.BitLen() <= 248 {
				c.Path = append(append([]uint32{}, c.Path[:pre]...), start+j)
				c.Path = append(c.Path, vfGenIdx(t, "after"), vfGenIdx(t, "after2"))
				break
			}
		}
	}
	return c
}

func vfEqKey(where string, k *ExtendedKey, r *vlib.RefKey) *vlib.Failure {
	priv, pub := config.ChainParams.HDPrivateKeyID[:], config.ChainParams.HDPublicKeyID[:]
	if got, want := k.String(), r.String(priv, pub); got != want {
		return vlib.Failf("bip32-mismatch:serialization", "%s: key %s, BIP32 reference %s", where, got, want)
	}
	n, err := k.Neuter()
	if err != nil {
		return vlib.Failf("neuter-failed", "%s: %v", where, err)
	}
	if got, want := n.String(), r.Neuter().String(priv, pub); got != want {
		return vlib.Failf("bip32-mismatch:neuter", "%s: neutered key %s, reference %s", where, got, want)
	}
	pk, err := k.ECPubKey()
	if err != nil || !bytes.Equal(pk.SerializeCompressed(), r.Pub) {
		return vlib.Failf("bip32-mismatch:pubkey", "%s: ECPubKey %x (%v), reference %x", where, pk.SerializeCompressed(), err, r.Pub)
	}
	if k.IsPrivate() {
		sk, err := k.ECPrivKey()
		if err != nil || sk.D.Cmp(r.Priv) != 0 {
			return vlib.Failf("bip32-mismatch:privkey", "%s: ECPrivKey differs from reference (%v)", where, err)
		}
	}
	return nil
}

func vfC18Run(c vfC18Case, ctx *vlib.Ctx) *vlib.Failure {
	k, err := NewMaster(c.Seed, config.ChainParams)
	r, rerr := vlib.RefMaster(c.Seed)
	if (err != nil) != (rerr != nil) {
		return vlib.Failf("master-mismatch", "NewMaster err=%v, reference err=%v", err, rerr)
	}
	if err != nil {
		return nil
	}
	if f := vfEqKey("m", k, r); f != nil {
		return f
	}
	shortParentHardened, mixed := false, false
	hasH, hasN := false, false
	for d, i := range c.Path {
		where := fmt.Sprintf("seed %x path %v step %d (index %d)", c.Seed, c.Path[:d+1], d, i)
		hardened := i >= HardenedKeyStart
		short := r.Priv.BitLen() <= 248
		if d < len(c.Sibs) {
			for _, si := range c.Sibs[d] {
				sk, serr := k.Child(si)
				sr, srerr := r.Child(si, false)
				if serr != nil || srerr != nil {
					continue
				}
				if si >= HardenedKeyStart && short {
					continue // recorded deviation, judged on the main path only
				}
				if f := vfEqKey(where+fmt.Sprintf(" sibling %d", si), sk, sr); f != nil {
					return f
				}
				if c.ZeroSibs {
					sk.Zero()
				}
			}
		}
		ck, cerr := k.Child(i)
		cr, crerr := r.Child(i, false)
		if crerr == vlib.ErrRefInvalidChild || cerr == ErrInvalidChild {
			if (crerr == vlib.ErrRefInvalidChild) != (cerr == ErrInvalidChild) {
				return vlib.Failf("invalid-child-mismatch", "%s: err=%v, reference err=%v", where, cerr, crerr)
			}
			return nil
		}
		if cerr != nil || crerr != nil {
			return vlib.Failf("child-error", "%s: err=%v, reference err=%v", where, cerr, crerr)
		}
		// round trip through text: the parsed parent must derive the same child
		pk, perr := NewKeyFromString(k.String())
		if perr != nil {
			return vlib.Failf("parse-failed", "%s: NewKeyFromString(String(parent)): %v", where, perr)
		}
		pck, pcerr := pk.Child(i)
		if f := vfEqKey(where, ck, cr); f != nil {
			if hardened && short {
				if lr, lerr := r.Child(i, true); lerr == nil && ck.String() == lr.String(config.ChainParams.HDPrivateKeyID[:], config.ChainParams.HDPublicKeyID[:]) {
					return vlib.Failf("hardened-child-of-short-private-parent", "%s: the parent private key has %d leading zero byte(s); Child() copies it left-aligned into the HMAC input instead of ser256(k): got %s, BIP32 says %s", where, 32-(r.Priv.BitLen()+7)/8, ck.String(), cr.String(config.ChainParams.HDPrivateKeyID[:], config.ChainParams.HDPublicKeyID[:]))
				}
			}
			return f
		}
		if pcerr != nil || pck.String() != ck.String() {
			return vlib.Failf("parse-roundtrip-child-differs", "%s: Parse(String(parent)).Child = %v (%v), parent.Child = %s", where, pck, pcerr, ck.String())
		}
		if !hardened {
			np, _ := k.Neuter()
			pubChild, err := np.Child(i)
			if err != nil {
				return vlib.Failf("public-derivation-failed", "%s: %v", where, err)
			}
			nc, _ := ck.Neuter()
			if pubChild.String() != nc.String() {
				return vlib.Failf("public-private-derivation-differ", "%s: Neuter(parent).Child=%s, Neuter(parent.Child)=%s", where, pubChild.String(), nc.String())
			}
			// parsed public parent as well
			pp, err := NewKeyFromString(np.String())
			if err != nil {
				return vlib.Failf("parse-failed", "%s: parse of public parent: %v", where, err)
			}
			if ppc, err := pp.Child(i); err != nil || ppc.String() != nc.String() {
				return vlib.Failf("parse-roundtrip-child-differs", "%s: public parent parsed from text derives a different child (%v)", where, err)
			}
			hasN = true
		} else {
			np, _ := k.Neuter()
			if _, err := np.Child(i); err != ErrDeriveHardFromPublic {
				return vlib.Failf("hardened-from-public-accepted", "%s: err=%v", where, err)
			}
			hasH = true
			if short {
				shortParentHardened = true
			}
		}
		if int(ck.Depth()) != d+1 {
			return vlib.Failf("depth-mismatch", "%s: depth %d", where, ck.Depth())
		}
		k, r = ck, cr
	}
	mixed = hasH && hasN && len(c.Path) >= 3
	if shortParentHardened {
		ctx.Label("hardened-step-from-short-parent")
	}
	if mixed {
		ctx.Label("mixed-depth>=3")
	}
	if shortParentHardened || mixed {
		ctx.NonTrivial()
	}
	return nil
}

var vfC18Spec = vlib.Spec[vfC18Case]{
	Prop: "C18", Name: "bip32-differential",
	Rule: "seeds of 16-64 bytes, paths of depth 1-8 (sometimes 40) over edge indices (0, 2^31-1, 2^31, 2^32-1, 44', 297') and random ones; a quarter of the cases is steered through a parent whose private key has a leading zero byte; at every node: xprv/xpub strings, public key and scalar equal the self-validated BIP32 reference, Neuter(CKDpriv)=CKDpub for normal steps, Parse(String(parent)) derives the same child (private and public parents), hardened derivation from a public key is refused; non-trivial = path with a hardened step from a short-key parent, or depth>=3 mixing hardened and normal steps; distinct = distinct case JSON",
	Gen:  vfGenC18, Run: vfC18Run,
	Exclude: func(c vfC18Case) string {
		// withhold by construction the cases that would hit the recorded deviation (reference-only computation)
		r, err := vlib.RefMaster(c.Seed)
		if err != nil {
			return ""
		}
		for _, i := range c.Path {
			if i >= 0x80000000 && r.Priv.BitLen() <= 248 {
				return "hardened-child-of-short-private-parent"
			}
			if r, err = r.Child(i, false); err != nil {
				return ""
			}
		}
		return ""
	},
}

func TestVerif_C18(t *testing.T) {
	if err := vlib.RefSelfTest(); err != nil {
		t.Fatalf("VERIF-INCONCLUSIVE: reference self-test failed: %v", err)
	}
	vlib.Both(t, vfC18Spec)
}

var _ = hex.EncodeToString
