package keystore

// Shared wallet engine of the /verif harness (DESIGN.md §3.1): a program of abstract wallet operations is
// interpreted against one or two real wallets (LevelDB store + KeystoreManagerForPoC) and against a reference
// model; after every step the observable wallet state is compared with the model. The per-property files
// (zz_verif_c01…c06,c12,c14) choose generators, extra oracles and the non-triviality rule.

import (
	"bytes"
	"crypto/sha256"
	"encoding/hex"
	"encoding/json"
	"fmt"
	"os"
	"path/filepath"
	"runtime/debug"
	"sort"
	"strings"
	"sync"

	"github.com/massnetorg/mass-core/logging"
	"github.com/massnetorg/mass-core/massutil"
	"github.com/massnetorg/mass-core/pocec"
	"github.com/massnetorg/mass-core/wire"
	"github.com/sirupsen/logrus"
	"github.com/syndtr/goleveldb/leveldb"
	"github.com/syndtr/goleveldb/leveldb/opt"
	"massnet.org/mass/config"
	walletdb "massnet.org/mass/poc/wallet/db"
	ldb "massnet.org/mass/poc/wallet/db/ldb"
	"massnet.org/mass/poc/wallet/keystore/snacl"

	"pgregory.net/rapid"
	"verif/vlib"
)

// ---------------------------------------------------------------------------------------------------
// process-wide set-up

var vfOnce sync.Once
var vfLogDir string

func vfSetup() {
	vfOnce.Do(func() {
		// cheap scrypt everywhere (ImportKeystore hard-codes the default options otherwise)
		secretKeyGen = func(passphrase *[]byte, _ *ScryptOptions) (*snacl.SecretKey, error) {
			return defaultNewSecretKey(passphrase, &ScryptOptions{N: 16, R: 8, P: 1})
		}
		base := os.Getenv("TMPDIR")
		if base == "" {
			base = os.TempDir()
		}
		vfLogDir = filepath.Join(base, fmt.Sprintf("vflog-%d", os.Getpid()))
		os.MkdirAll(vfLogDir, 0o755)
		lvl := os.Getenv("VERIF_LOGLEVEL")
		if lvl == "" {
			lvl = "error"
		}
		logging.Init(vfLogDir, "vf.log", lvl, 0, true)
		// logging.FATAL ends the process through logrus; leave a marker with the stack so that the driver can
		// attribute the death to the case in flight
		logrus.RegisterExitHandler(func() {
			fmt.Fprintf(os.Stderr, "\nVERIF-FATAL-EXIT: the code under test called logging.FATAL (process exit)\n%s\n", debug.Stack())
		})
	})
}

// ---------------------------------------------------------------------------------------------------
// program representation

type vfWOp struct {
	K    string `json:"k"`
	W    int    `json:"w,omitempty"`    // wallet selector
	Ks   int    `json:"ks,omitempty"`   // keystore selector (index into the model's keystore order, mod n)
	N    int    `json:"n,omitempty"`    // count / key index selector
	Int  bool   `json:"int,omitempty"`  // internal branch
	Pass string `json:"pass,omitempty"` // passphrase selector: cur | old | pub | lit:<text>
	New  string `json:"new,omitempty"`  // second passphrase selector (new passphrase): "" | cur | same | lit:<text>
	S    string `json:"s,omitempty"`    // remark text
	Seed []byte `json:"seed,omitempty"` // seed for new keystore (nil = let the wallet generate one)
	Ex   int    `json:"ex,omitempty"`   // export selector
	Data []byte `json:"data,omitempty"` // digest or message
	Msg  bool   `json:"msg,omitempty"`  // sign message instead of hash
	Tam  *vfTam `json:"tam,omitempty"`  // tampering applied to the export before import
}

type vfTam struct {
	Field string `json:"field"` // dotted JSON path of the leaf
	Kind  string `json:"kind"`  // bitflip | tailflip | truncate | nonhex | swap | type | remove | delta
	Arg   int    `json:"arg"`
	Bit   int    `json:"bit,omitempty"` // added to the bit number, so that byte and bit positions are independent
}

type vfWProg struct {
	PubA string  `json:"pubA"`
	PubB string  `json:"pubB"`
	Ops  []vfWOp `json:"ops"`
}

// ---------------------------------------------------------------------------------------------------
// model

type vfMKey struct {
	Pub  string // hex compressed
	Addr string
}

type vfMKs struct {
	ID     string
	Remark string
	Br     [2][]vfMKey // [0]=external, [1]=internal
	// lockedAt[b][i] = whether key i of branch b was issued while the wallet was locked
	IssuedLocked [2][]bool
}

type vfExport struct {
	JSON   []byte
	Pass   string
	ID     string
	Remark string
	N      [2]int
	FromW  int
}

type vfModel struct {
	PubPass  string
	PrivPass string // "" when no keystore exists
	OldPriv  []string
	Unlocked bool
	Ks       map[string]*vfMKs
	Order    []string
	// observed keys survive delete/import: id -> branch -> index -> key
	Observed map[string]*[2]map[int]vfMKey
	SeedID   map[string]string // hex seed -> keystore id
}

func vfNewModel(pub string) *vfModel {
	return &vfModel{PubPass: pub, Ks: map[string]*vfMKs{}, Observed: map[string]*[2]map[int]vfMKey{}, SeedID: map[string]string{}}
}

func (m *vfModel) pick(sel int) *vfMKs {
	if len(m.Order) == 0 {
		return nil
	}
	if sel < 0 {
		sel = -sel
	}
	return m.Ks[m.Order[sel%len(m.Order)]]
}

func (m *vfModel) remove(id string) {
	delete(m.Ks, id)
	for i, x := range m.Order {
		if x == id {
			m.Order = append(m.Order[:i:i], m.Order[i+1:]...)
			break
		}
	}
	if len(m.Order) == 0 {
		m.PrivPass = ""
		m.OldPriv = nil
	}
}

func (m *vfModel) observe(id string, branch, idx int, k vfMKey) *vlib.Failure {
	o := m.Observed[id]
	if o == nil {
		o = &[2]map[int]vfMKey{{}, {}}
		m.Observed[id] = o
	}
	if prev, ok := o[branch][idx]; ok {
		if prev != k {
			return vlib.Failf("key-not-stable", "keystore %s branch %d index %d was %s, now %s", id, branch, idx, prev.Pub, k.Pub)
		}
		return nil
	}
	o[branch][idx] = k
	return nil
}

// ---------------------------------------------------------------------------------------------------
// system under test

type vfW struct {
	idx   int
	dir   string
	store walletdb.DB
	kmc   *KeystoreManagerForPoC
	m     *vfModel
}

type vfEnv struct {
	w       []*vfW
	exports []*vfExport
	c       *vlib.Ctx
	opt     *vfOpt
	root    string
	seenPub map[string]bool
	// statistics for non-triviality rules
	st vfStats
}

type vfStats struct {
	restarts, restartAfterMut, imports, importsOK, deletes, privChanges, pubChanges int
	issuedLocked, issuedUnlocked, plotKeys, signs, signsOK, tamperTried             int
	opsWhileLocked, multiKs, rejected, errLogs                                      int
	mutSinceRestart                                                                 bool
	importIntoNonEmpty, unequalCounts, lockedIssuedExported                         bool
	signedAfterTransition, signedInternal, genInterleaved                           bool
}

// vfOpt selects the extra oracles of one property.
type vfOpt struct {
	Secrets   bool                                    // C03: inspect secret fields after every step
	AfterStep func(e *vfEnv, op *vfWOp) *vlib.Failure // property specific oracle
	AtEnd     func(e *vfEnv) *vlib.Failure
	OpenStore func(path string, create bool) (walletdb.DB, error) // C12 wraps the store
}

// vfOpenLevel opens the LevelDB-backed wallet store through the repository's constructor. That constructor asks
// goleveldb for a 64 MiB write buffer, which goleveldb allocates anew for every transaction; for speed most
// opens then swap the inner goleveldb handle for one opened with a small buffer (same *ldb.LevelDB value, all
// transaction/bucket code is the repository's); every 8th open keeps the original handle.
var vfOpenCount int

func vfOpenLevel(path string, create bool) (walletdb.DB, error) {
	vfOpenCount++
	var d walletdb.DB
	var err error
	if create {
		d, err = ldb.CreateDB(path)
	} else {
		d, err = ldb.OpenDB(path)
	}
	if err != nil || os.Getenv("VERIF_REAL_OPEN") == "1" || vfOpenCount%8 == 0 {
		return d, err
	}
	l, ok := d.(*ldb.LevelDB)
	if !ok || l.LDb == nil {
		return d, nil
	}
	if err := l.LDb.Close(); err != nil {
		return nil, err
	}
	h, err := leveldb.OpenFile(path, &opt.Options{WriteBuffer: 1 << 20, BlockCacheCapacity: 1 << 20, ErrorIfMissing: true})
	if err != nil {
		return nil, err
	}
	l.LDb = h
	return l, nil
}

func (e *vfEnv) open(w *vfW, pub string) error {
	_, err := os.Stat(w.dir)
	create := os.IsNotExist(err)
	opener := vfOpenLevel
	if e.opt != nil && e.opt.OpenStore != nil {
		opener = e.opt.OpenStore
	}
	store, err := opener(w.dir, create)
	if err != nil {
		return fmt.Errorf("open store: %v", err)
	}
	kmc, err := NewKeystoreManagerForPoC(store, []byte(pub), config.ChainParams)
	if err != nil {
		store.Close()
		return err
	}
	w.store, w.kmc = store, kmc
	return nil
}

func vfNewEnv(p *vfWProg, c *vlib.Ctx, opt *vfOpt) (*vfEnv, error) {
	vfSetup()
	root, err := os.MkdirTemp("", "vfw")
	if err != nil {
		return nil, err
	}
	e := &vfEnv{c: c, opt: opt, root: root, seenPub: map[string]bool{}}
	for i, pub := range []string{p.PubA, p.PubB} {
		w := &vfW{idx: i, dir: filepath.Join(root, fmt.Sprintf("w%d", i), "keystore"), m: vfNewModel(pub)}
		os.MkdirAll(filepath.Dir(w.dir), 0o755)
		if err := e.open(w, pub); err != nil {
			e.close()
			return nil, fmt.Errorf("initial open wallet %d: %v", i, err)
		}
		e.w = append(e.w, w)
	}
	return e, nil
}

func (e *vfEnv) close() {
	for _, w := range e.w {
		if w.store != nil {
			w.store.Close()
			w.store = nil
		}
	}
	os.RemoveAll(e.root)
}

// resolve a passphrase selector against the model of wallet w
func (e *vfEnv) pass(w *vfW, sel string) string {
	switch {
	case sel == "cur":
		if w.m.PrivPass != "" {
			return w.m.PrivPass
		}
		return "Fresh0Priv#pass"
	case sel == "old":
		if n := len(w.m.OldPriv); n > 0 {
			return w.m.OldPriv[n-1]
		}
		return "Never1Used$pass"
	case sel == "old0":
		if n := len(w.m.OldPriv); n > 0 {
			return w.m.OldPriv[0]
		}
		return "Never2Used$pass"
	case sel == "pub":
		return w.m.PubPass
	case strings.HasPrefix(sel, "near:"):
		// near misses of the current private passphrase
		cur := e.pass(w, "cur")
		switch sel[5:] {
		case "append":
			return cur + "x"
		case "append0":
			// NOT generated: scrypt = PBKDF2-HMAC-SHA256 keys HMAC with the passphrase, and HMAC zero-pads keys shorter
			// than its block, so pass and pass+"\x00" are the same scrypt input. Accepting it discloses nothing (who
			// knows one knows the other); demanding rejection would be a false alarm against the primitive.
			return cur + "\x00"
		case "trunc":
			return cur[:len(cur)-1]
		case "case":
			b := []byte(cur)
			for i := range b {
				if b[i] >= 'a' && b[i] <= 'z' {
					b[i] -= 32
					return string(b)
				} else if b[i] >= 'A' && b[i] <= 'Z' {
					b[i] += 32
					return string(b)
				}
			}
			return cur + "y"
		case "double":
			return cur + cur
		}
		return cur + "z"
	case strings.HasPrefix(sel, "lit:"):
		return sel[4:]
	}
	return sel
}

func vfKeyOf(ma *ManagedAddress) vfMKey {
	return vfMKey{Pub: hex.EncodeToString(ma.pubKey.SerializeCompressed()), Addr: ma.address}
}

func vfParsePub(h string) *pocec.PublicKey {
	b, _ := hex.DecodeString(h)
	pk, err := pocec.ParsePubKey(b, pocec.S256())
	if err != nil {
		panic(err)
	}
	return pk
}

// vfIndependentAddr computes the pay-to-pubkey-hash address with the chain library only.
func vfIndependentAddr(pubHex string) string {
	b, _ := hex.DecodeString(pubHex)
	a, err := massutil.NewAddressPubKeyHash(massutil.Hash160(b), config.ChainParams)
	if err != nil {
		panic(err)
	}
	return a.EncodeAddress()
}

// ---------------------------------------------------------------------------------------------------
// view comparison (C02 oracle; used by all wallet properties)

func (e *vfEnv) compare(w *vfW, where string) *vlib.Failure {
	m := w.m
	names := w.kmc.ListKeystoreNames()
	sort.Strings(names)
	want := append([]string(nil), m.Order...)
	sort.Strings(want)
	if strings.Join(names, ",") != strings.Join(want, ",") {
		return vlib.Failf("view:keystore-set", "%s: wallet %d lists keystores %v, model %v", where, w.idx, names, want)
	}
	ams := w.kmc.GetManagedAddrManager()
	if len(ams) != len(want) {
		return vlib.Failf("view:keystore-set", "%s: wallet %d has %d managers, model %d", where, w.idx, len(ams), len(want))
	}
	if w.kmc.IsLocked() == m.Unlocked {
		return vlib.Failf("view:lock-state", "%s: wallet %d IsLocked=%v, model unlocked=%v", where, w.idx, w.kmc.IsLocked(), m.Unlocked)
	}
	for _, am := range ams {
		mk := m.Ks[am.Name()]
		if mk == nil {
			return vlib.Failf("view:keystore-set", "%s: wallet %d has unknown manager %s", where, w.idx, am.Name())
		}
		if am.Remarks() != mk.Remark {
			return vlib.Failf("view:remark", "%s: keystore %s remark %q, model %q", where, mk.ID, am.Remarks(), mk.Remark)
		}
		ext, in := am.CountAddresses()
		if ext != len(mk.Br[0]) || in != len(mk.Br[1]) {
			return vlib.Failf("view:address-count", "%s: keystore %s has %d/%d addresses, model %d/%d", where, mk.ID, ext, in, len(mk.Br[0]), len(mk.Br[1]))
		}
		if int(am.branchInfo.nextExternalIndex) != len(mk.Br[0]) || int(am.branchInfo.nextInternalIndex) != len(mk.Br[1]) {
			return vlib.Failf("view:next-index", "%s: keystore %s next indices %d/%d, model %d/%d", where, mk.ID, am.branchInfo.nextExternalIndex, am.branchInfo.nextInternalIndex, len(mk.Br[0]), len(mk.Br[1]))
		}
		addrs := am.ListAddresses()
		if len(addrs) != ext+in {
			return vlib.Failf("view:address-count", "%s: keystore %s ListAddresses=%d, counts %d", where, mk.ID, len(addrs), ext+in)
		}
		for b := 0; b < 2; b++ {
			for i, k := range mk.Br[b] {
				ma, err := am.Address(k.Addr)
				if err != nil {
					return vlib.Failf("view:address-missing", "%s: keystore %s branch %d index %d address %s missing: %v", where, mk.ID, b, i, k.Addr, err)
				}
				if got := vfKeyOf(ma); got != k {
					return vlib.Failf("view:key-mismatch", "%s: keystore %s branch %d index %d key %s, model %s", where, mk.ID, b, i, got.Pub, k.Pub)
				}
				if int(ma.derivationPath.Branch) != b || int(ma.derivationPath.Index) != i || ma.Account() != mk.ID || ma.IsChangeAddr() != (b == 1) {
					return vlib.Failf("view:path-mismatch", "%s: keystore %s key %s has path %+v, model branch %d index %d", where, mk.ID, k.Pub, ma.derivationPath, b, i)
				}
				ord, ok := w.kmc.GetPublicKeyOrdinal(vfParsePub(k.Pub))
				if !ok || int(ord) != i {
					return vlib.Failf("view:ordinal", "%s: GetPublicKeyOrdinal(%s)=(%d,%v), model %d", where, k.Pub, ord, ok, i)
				}
				if a, err := w.kmc.GetAddressByPubKey(vfParsePub(k.Pub)); err != nil || a != k.Addr || a != vfIndependentAddr(k.Pub) {
					return vlib.Failf("view:address-of-key", "%s: GetAddressByPubKey(%s)=(%s,%v), model %s / chain library %s", where, k.Pub, a, err, k.Addr, vfIndependentAddr(k.Pub))
				}
			}
		}
	}
	return nil
}

// ---------------------------------------------------------------------------------------------------
// C03 oracle: lock flags are all-or-nothing; a locked wallet holds no secret

func vfAllZero(b []byte) bool {
	for _, x := range b {
		if x != 0 {
			return false
		}
	}
	return true
}

func (e *vfEnv) secrets(w *vfW, where string) *vlib.Failure {
	kmc := w.kmc
	for id, am := range kmc.managedKeystores {
		if am.unlocked != kmc.unlocked {
			return vlib.Failf("lock:not-all-or-nothing", "%s: wallet unlocked=%v but keystore %s unlocked=%v", where, kmc.unlocked, id, am.unlocked)
		}
		if am.unlocked {
			continue
		}
		for a, ma := range am.addrs {
			if ma.privKey != nil {
				return vlib.Failf("locked-holds:address-private-key", "%s: locked keystore %s still holds the private key of %s", where, id, a)
			}
		}
		if am.acctInfo.acctKeyPriv != nil {
			return vlib.Failf("locked-holds:account-private-key", "%s: locked keystore %s holds acctKeyPriv", where, id)
		}
		if am.branchInfo.externalBranchPriv != nil || am.branchInfo.internalBranchPriv != nil {
			return vlib.Failf("locked-holds:branch-private-key", "%s: locked keystore %s holds a branch private key", where, id)
		}
		if am.cryptoKeyPriv != nil && !vfAllZero(am.cryptoKeyPriv.Bytes()) {
			return vlib.Failf("locked-holds:cryptoKeyPriv", "%s: locked keystore %s holds a non-zero private crypto key", where, id)
		}
		if !vfAllZero(am.hashedPrivPassphrase[:]) {
			return vlib.Failf("locked-holds:passphrase-hash", "%s: locked keystore %s holds a passphrase hash", where, id)
		}
		if am.masterKeyPriv != nil && am.masterKeyPriv.Key != nil && !vfAllZero(am.masterKeyPriv.Key[:]) {
			// semantic form of "holds no key-decrypting key": what is left must not open the private crypto key
			if pt, err := am.masterKeyPriv.Decrypt(am.cryptoKeyPrivEncrypted); err == nil {
				for i := range pt {
					pt[i] = 0
				}
				return vlib.Failf("locked-holds:masterKeyPriv", "%s: locked keystore %s keeps a derived master private key that decrypts its private crypto key", where, id)
			}
		}
	}
	return nil
}

// ---------------------------------------------------------------------------------------------------
// interpreter

const vfBogusID = "ms1qqxyzxyzxyzxyzxyzxyzxyzxyzxyzxyzxyzbogus"

func (e *vfEnv) step(i int, op *vfWOp) *vlib.Failure {
	w := e.w[0]
	if op.W%2 == 1 && len(e.w) > 1 {
		w = e.w[1]
	}
	if op.K == "xfer" {
		// composite: export keystore Ks of wallet W with the current passphrase, optionally delete it there, then
		// import the file (into the same wallet when Int is set, else into a wallet that does not hold it)
		src := e.w[0]
		if op.W%2 == 1 && len(e.w) > 1 {
			src = e.w[1]
		}
		if src.m.pick(op.Ks) == nil {
			e.c.Label("xfer-without-keystore")
			return nil
		}
		n0 := len(e.exports)
		if f := e.step(i, &vfWOp{K: "export", W: op.W % 2, Ks: op.Ks, Pass: "cur"}); f != nil {
			return f
		}
		if len(e.exports) != n0+1 {
			return nil
		}
		if op.N%2 == 1 {
			if f := e.step(i, &vfWOp{K: "delete", W: op.W % 2, Ks: op.Ks, Pass: "cur"}); f != nil {
				return f
			}
		}
		for k := 0; k < op.N/2%3; k++ { // a few more keys in the source after the export (if it still exists)
			if f := e.step(i, &vfWOp{K: "next", W: op.W % 2, Ks: op.Ks, N: 1, Int: k%2 == 0}); f != nil {
				return f
			}
		}
		imp := vfWOp{K: "import", W: 2, Ex: -1, Pass: op.Pass, New: op.New, Tam: op.Tam}
		if op.Int {
			imp.W = op.W % 2
		}
		return e.step(i, &imp)
	}
	if op.K == "import" && op.W == 2 && len(e.exports) > 0 {
		// "auto" target: prefer a wallet that does not hold the exported keystore
		ex := e.exports[(op.Ex+len(e.exports))%len(e.exports)]
		w = e.w[0]
		for _, cand := range e.w {
			if _, present := cand.m.Ks[ex.ID]; !present {
				w = cand
				break
			}
		}
	}
	m := w.m
	where := fmt.Sprintf("op#%d %s(w%d)", i, op.K, w.idx)
	if !m.Unlocked && op.K != "lock" && op.K != "unlock" && op.K != "restart" {
		e.st.opsWhileLocked++
	}
	mutated := false
	switch op.K {
	case "new":
		pass := e.pass(w, op.Pass)
		var seed []byte
		if op.Seed != nil {
			seed = append([]byte(nil), op.Seed...)
		}
		expectOK := ValidatePassphrase([]byte(pass)) && pass != m.PubPass && (len(m.Order) == 0 || pass == m.PrivPass) && (len(seed) == 0 || len(seed) == 32)
		dup := false
		// the id a seed leads to is the same in every wallet; a keystore may have arrived here by import from the
		// wallet in which the seed was first used
		for _, ow := range e.w {
			if id, ok := ow.m.SeedID[hex.EncodeToString(seed)]; ok && len(seed) == 32 {
				if _, present := m.Ks[id]; present {
					dup = true
				}
			}
		}
		id, err := w.kmc.NewKeystore([]byte(pass), seed, op.S, config.ChainParams, fastScryptVf)
		if err != nil {
			e.st.rejected++
			if expectOK && !dup {
				return vlib.Failf("new:rejected", "%s: NewKeystore with a legal passphrase and seed failed: %v", where, err)
			}
			break
		}
		if !expectOK {
			return vlib.Failf("new:accepted-illegal", "%s: NewKeystore succeeded with pass=%q (current %q, public %q) seedlen=%d", where, pass, m.PrivPass, m.PubPass, len(seed))
		}
		if dup {
			return vlib.Failf("new:accepted-duplicate", "%s: NewKeystore accepted a seed that is already present (%s)", where, id)
		}
		if _, present := m.Ks[id]; present {
			return vlib.Failf("new:id-collision", "%s: NewKeystore returned id %s that already exists", where, id)
		}
		if len(seed) == 32 {
			if prev, ok := m.SeedID[hex.EncodeToString(seed)]; ok && prev != id {
				return vlib.Failf("key-not-stable", "%s: seed produced id %s earlier and %s now", where, prev, id)
			}
			m.SeedID[hex.EncodeToString(seed)] = id
		}
		if len(m.Order) == 0 {
			m.PrivPass = pass
		}
		m.Ks[id] = &vfMKs{ID: id, Remark: op.S}
		m.Order = append(m.Order, id)
		mutated = true
	case "next":
		mk := m.pick(op.Ks)
		id := vfBogusID
		if mk != nil {
			id = mk.ID
		}
		b := 0
		if op.Int {
			b = 1
		}
		if op.N >= 60 {
			e.c.Label("bulk-next(60..140 addresses)")
		}
		mas, err := w.kmc.NextAddresses(id, op.Int, uint32(op.N))
		if mk == nil {
			if err == nil {
				return vlib.Failf("next:unknown-keystore-accepted", "%s: NextAddresses on unknown keystore succeeded", where)
			}
			break
		}
		if err != nil {
			return vlib.Failf("next:rejected", "%s: NextAddresses(%s,%v,%d) failed: %v", where, id, op.Int, op.N, err)
		}
		if len(mas) != op.N {
			return vlib.Failf("next:count", "%s: asked %d addresses, got %d", where, op.N, len(mas))
		}
		for j, ma := range mas {
			k := vfKeyOf(ma)
			idx := len(mk.Br[b])
			if int(ma.derivationPath.Index) != idx || int(ma.derivationPath.Branch) != b {
				return vlib.Failf("next:not-consecutive", "%s: address %d has path %+v, expected branch %d index %d", where, j, ma.derivationPath, b, idx)
			}
			if f := m.observe(mk.ID, b, idx, k); f != nil {
				return f
			}
			if e.seenPub[fmt.Sprintf("%d/%s", w.idx, k.Pub)] {
				if o := m.Observed[mk.ID]; o == nil || o[b][idx] != k {
					return vlib.Failf("next:key-reused", "%s: key %s was issued before", where, k.Pub)
				}
			}
			e.seenPub[fmt.Sprintf("%d/%s", w.idx, k.Pub)] = true
			mk.Br[b] = append(mk.Br[b], k)
			mk.IssuedLocked[b] = append(mk.IssuedLocked[b], !m.Unlocked)
			if m.Unlocked {
				e.st.issuedUnlocked++
			} else {
				e.st.issuedLocked++
			}
		}
		if op.N > 0 {
			mutated = true
		}
	case "gen":
		pk, idx, err := w.kmc.GenerateNewPublicKey()
		if len(m.Order) == 0 {
			if err == nil {
				return vlib.Failf("gen:no-keystore-accepted", "%s: GenerateNewPublicKey without keystore succeeded", where)
			}
			break
		}
		if err != nil || pk == nil {
			return vlib.Failf("gen:rejected", "%s: GenerateNewPublicKey failed: %v", where, err)
		}
		k := vfMKey{Pub: hex.EncodeToString(pk.SerializeCompressed())}
		k.Addr = vfIndependentAddr(k.Pub)
		var owner *vfMKs
		for id, am := range w.kmc.managedKeystores {
			if _, ok := am.addrs[k.Addr]; ok {
				if owner != nil {
					return vlib.Failf("gen:two-owners", "%s: key %s is held by two keystores", where, k.Pub)
				}
				owner = m.Ks[id]
			}
		}
		if owner == nil {
			return vlib.Failf("gen:no-owner", "%s: returned key %s is in no keystore", where, k.Pub)
		}
		for b := 0; b < 2; b++ {
			for _, old := range owner.Br[b] {
				if old.Pub == k.Pub {
					return vlib.Failf("gen:key-reused", "%s: GenerateNewPublicKey returned %s which the wallet returned before", where, k.Pub)
				}
			}
		}
		if int(idx) != len(owner.Br[0]) {
			return vlib.Failf("gen:ordinal", "%s: ordinal %d for a keystore that has issued %d external keys", where, idx, len(owner.Br[0]))
		}
		if f := m.observe(owner.ID, 0, int(idx), k); f != nil {
			return f
		}
		e.seenPub[fmt.Sprintf("%d/%s", w.idx, k.Pub)] = true
		owner.Br[0] = append(owner.Br[0], k)
		owner.IssuedLocked[0] = append(owner.IssuedLocked[0], !m.Unlocked)
		e.st.plotKeys++
		if m.Unlocked {
			e.st.issuedUnlocked++
		} else {
			e.st.issuedLocked++
		}
		mutated = true
	case "remark":
		mk := m.pick(op.Ks)
		id := vfBogusID
		if mk != nil {
			id = mk.ID
		}
		err := w.kmc.ChangeRemark(id, op.S)
		if mk == nil {
			if err == nil {
				return vlib.Failf("remark:unknown-keystore-accepted", "%s: ChangeRemark on unknown keystore succeeded", where)
			}
			break
		}
		if err != nil {
			return vlib.Failf("remark:rejected", "%s: ChangeRemark failed: %v", where, err)
		}
		mk.Remark = op.S
		mutated = true
	case "chpriv":
		old, nw := e.pass(w, op.Pass), e.pass(w, op.New)
		err := w.kmc.ChangePrivPassphrase([]byte(old), []byte(nw), fastScryptVf)
		legal := ValidatePassphrase([]byte(nw)) && nw != m.PubPass && nw != old
		if len(m.Order) == 0 {
			if legal && err != nil {
				return vlib.Failf("chpriv:rejected", "%s: on an empty wallet failed: %v", where, err)
			}
			break
		}
		expectOK := legal && old == m.PrivPass
		if err != nil {
			e.st.rejected++
			if expectOK {
				return vlib.Failf("chpriv:rejected", "%s: ChangePrivPassphrase(current,%q) failed: %v", where, nw, err)
			}
			break
		}
		if !expectOK {
			return vlib.Failf("chpriv:accepted-illegal", "%s: ChangePrivPassphrase(old=%q,new=%q) succeeded; current=%q public=%q", where, old, nw, m.PrivPass, m.PubPass)
		}
		m.OldPriv = append(m.OldPriv, m.PrivPass)
		m.PrivPass = nw
		e.st.privChanges++
		mutated = true
	case "chpub":
		old, nw := e.pass(w, op.Pass), e.pass(w, op.New)
		err := w.kmc.ChangePubPassphrase([]byte(old), []byte(nw), fastScryptVf)
		legal := ValidatePassphrase([]byte(nw)) && nw != old
		if len(m.Order) == 0 {
			if legal {
				if err != nil {
					return vlib.Failf("chpub:rejected", "%s: on an empty wallet failed: %v", where, err)
				}
				m.PubPass = nw
			} else if err == nil {
				return vlib.Failf("chpub:accepted-illegal", "%s: ChangePubPassphrase(old=%q,new=%q) succeeded", where, old, nw)
			}
			break
		}
		expectOK := legal && old == m.PubPass && nw != m.PrivPass
		if err != nil {
			e.st.rejected++
			if expectOK {
				return vlib.Failf("chpub:rejected", "%s: ChangePubPassphrase(current,%q) failed: %v", where, nw, err)
			}
			break
		}
		if !expectOK {
			return vlib.Failf("chpub:accepted-illegal", "%s: ChangePubPassphrase(old=%q,new=%q) succeeded; current public=%q private=%q", where, old, nw, m.PubPass, m.PrivPass)
		}
		m.PubPass = nw
		e.st.pubChanges++
		mutated = true
	case "delete":
		mk := m.pick(op.Ks)
		id := vfBogusID
		if mk != nil {
			id = mk.ID
		}
		pass := e.pass(w, op.Pass)
		ok, err := w.kmc.DeleteKeystore(id, []byte(pass))
		if mk == nil {
			if err == nil || ok {
				return vlib.Failf("delete:unknown-keystore-accepted", "%s: DeleteKeystore on unknown keystore succeeded", where)
			}
			break
		}
		if err != nil || !ok {
			e.st.rejected++
			if pass == m.PrivPass {
				return vlib.Failf("delete:rejected", "%s: DeleteKeystore with the current passphrase failed: %v", where, err)
			}
			break
		}
		if pass != m.PrivPass {
			return vlib.Failf("delete:accepted-noncurrent-pass", "%s: DeleteKeystore succeeded with %q, current is %q", where, pass, m.PrivPass)
		}
		m.remove(id)
		e.st.deletes++
		mutated = true
	case "export":
		mk := m.pick(op.Ks)
		id := vfBogusID
		if mk != nil {
			id = mk.ID
		}
		pass := e.pass(w, op.Pass)
		js, err := w.kmc.ExportKeystore(id, []byte(pass))
		if mk == nil {
			if err == nil {
				return vlib.Failf("export:unknown-keystore-accepted", "%s: ExportKeystore on unknown keystore succeeded", where)
			}
			break
		}
		if err != nil {
			e.st.rejected++
			if pass == m.PrivPass {
				return vlib.Failf("export:rejected", "%s: ExportKeystore with the current passphrase failed: %v", where, err)
			}
			break
		}
		if pass != m.PrivPass {
			return vlib.Failf("export:accepted-noncurrent-pass", "%s: ExportKeystore succeeded with %q, current is %q", where, pass, m.PrivPass)
		}
		ex := &vfExport{JSON: js, Pass: pass, ID: mk.ID, Remark: mk.Remark, N: [2]int{len(mk.Br[0]), len(mk.Br[1])}, FromW: w.idx}
		e.exports = append(e.exports, ex)
		if len(mk.Br[0]) != len(mk.Br[1]) && len(mk.Br[0])+len(mk.Br[1]) > 0 {
			e.st.unequalCounts = true
		}
		for b := 0; b < 2; b++ {
			for _, l := range mk.IssuedLocked[b] {
				if l {
					e.st.lockedIssuedExported = true
				}
			}
		}
	case "import":
		if len(e.exports) == 0 {
			e.c.Label("import-without-export")
			break
		}
		ex := e.exports[(op.Ex+len(e.exports))%len(e.exports)]
		old := ex.Pass
		if op.Pass != "" && op.Pass != "export" {
			old = e.pass(w, op.Pass)
		}
		nw := ""
		switch op.New {
		case "":
		case "same":
			nw = old
		case "auto":
			// whatever satisfies the single-passphrase rule of the target wallet
			if len(m.Order) > 0 && m.PrivPass != old {
				nw = m.PrivPass
			}
		default:
			nw = e.pass(w, op.New)
		}
		js := ex.JSON
		tampered := ""
		if op.Tam != nil {
			var ok bool
			js, tampered, ok = vfTamper(ex.JSON, op.Tam, e.exports)
			if !ok {
				e.c.Label("tamper-noop")
				js, tampered = ex.JSON, ""
			} else {
				e.st.tamperTried++
			}
		}
		eff := nw
		if eff == "" {
			eff = old
		}
		_, present := m.Ks[ex.ID]
		expectOK := tampered == "" && old == ex.Pass && ValidatePassphrase([]byte(eff)) && eff != m.PubPass && (len(m.Order) == 0 || eff == m.PrivPass) && !present
		e.st.imports++
		id, remark, err := w.kmc.ImportKeystore(js, []byte(old), []byte(nw))
		if err != nil {
			e.st.rejected++
			if expectOK {
				return vlib.Failf("import:rejected", "%s: import of an untampered export with its passphrase failed: %v", where, err)
			}
			break
		}
		if tampered != "" {
			// An accepted tampered file. Fields the importer never reads (cipher, kdf, pubParams, cryptoKeyPubEnc,
			// hdPath.Purpose/Coin) cannot change what is restored; the verdict is taken on the effect: the restored
			// keystore must still be exactly the exported one, otherwise the tampering was accepted *with* effect.
			if vfTamVerified[tampered] && op.Tam.Kind != "swap" {
				// every byte of these fields is checked by the importer (scrypt salt, digest and cost parameters of the
				// private master key; the sealed boxes of the private crypto key and of the HD master key): an altered
				// one cannot pass unless a check was dropped, whatever the restored keystore looks like
				return vlib.Failf("import:tamper-accepted:field="+tampered, "%s: tampered export (%s %s arg=%d bit=%d) was accepted although every byte of that field is verified on import",
					where, op.Tam.Field, op.Tam.Kind, op.Tam.Arg, op.Tam.Bit)
			}
			ext, in := 0, 0
			if am := w.kmc.managedKeystores[id]; am != nil {
				ext, in = am.CountAddresses()
			}
			if id != ex.ID || remark != ex.Remark || ext != ex.N[0] || in != ex.N[1] {
				return vlib.Failf("import:tamper-accepted:field="+tampered, "%s: tampered export (%s %s) was accepted and restored id=%s remark=%q counts=%d/%d; exported id=%s remark=%q counts=%d/%d",
					where, op.Tam.Field, op.Tam.Kind, id, remark, ext, in, ex.ID, ex.Remark, ex.N[0], ex.N[1])
			}
			e.c.Label("tamper-without-effect:" + tampered)
			expectOK = old == ex.Pass && ValidatePassphrase([]byte(eff)) && eff != m.PubPass && (len(m.Order) == 0 || eff == m.PrivPass) && !present
		}
		if !expectOK {
			return vlib.Failf("import:accepted-illegal", "%s: ImportKeystore succeeded: old=%q (export pass %q) new=%q current=%q public=%q present=%v", where, old, ex.Pass, nw, m.PrivPass, m.PubPass, present)
		}
		if id != ex.ID || remark != ex.Remark {
			return vlib.Failf("import:identity", "%s: imported id/remark (%s,%q), exported (%s,%q)", where, id, remark, ex.ID, ex.Remark)
		}
		if len(m.Order) == 0 {
			m.PrivPass = eff
		} else {
			e.st.importIntoNonEmpty = true
		}
		mk := &vfMKs{ID: id, Remark: remark}
		src := e.w[ex.FromW].m.Observed[id]
		for b := 0; b < 2; b++ {
			for j := 0; j < ex.N[b]; j++ {
				k, ok := src[b][j]
				if !ok {
					return vlib.Failf("harness:missing-observation", "no observation for %s/%d/%d", id, b, j)
				}
				mk.Br[b] = append(mk.Br[b], k)
				mk.IssuedLocked[b] = append(mk.IssuedLocked[b], true)
				if f := m.observe(id, b, j, k); f != nil {
					return f
				}
			}
		}
		m.Ks[id] = mk
		m.Order = append(m.Order, id)
		e.st.importsOK++
		mutated = true
	case "lock":
		w.kmc.Lock()
		m.Unlocked = false
	case "unlock":
		pass := e.pass(w, op.Pass)
		err := w.kmc.Unlock([]byte(pass))
		switch {
		case len(m.Order) == 0:
			if err != nil {
				return vlib.Failf("unlock:rejected", "%s: Unlock of an empty wallet failed: %v", where, err)
			}
			m.Unlocked = true
		case pass == m.PrivPass:
			if err != nil {
				if m.Unlocked {
					e.c.Label("redundant-unlock-failed") // unspecified by the property (DESIGN §7 #11)
					break
				}
				return vlib.Failf("unlock:rejected", "%s: Unlock with the current passphrase failed: %v", where, err)
			}
			m.Unlocked = true
		default:
			if err == nil {
				return vlib.Failf("unlock:accepted-noncurrent-pass", "%s: Unlock succeeded with %q, current is %q", where, pass, m.PrivPass)
			}
			e.st.rejected++
		}
	case "restart":
		pub := m.PubPass
		wrong := false
		if op.Pass != "" && op.Pass != "cur" {
			pub = e.pass(w, op.Pass)
			wrong = pub != m.PubPass
		}
		var before string
		if wrong {
			before = vfStoreDigest(w)
		}
		w.store.Close()
		w.store, w.kmc = nil, nil
		err := e.open(w, pub)
		e.st.restarts++
		if e.st.mutSinceRestart {
			e.st.restartAfterMut++
		}
		if wrong && len(m.Order) > 0 {
			if err == nil {
				return vlib.Failf("restart:wrong-public-pass-accepted", "%s: store with %d keystores opened with public passphrase %q, current is %q", where, len(m.Order), pub, m.PubPass)
			}
			// must not have altered the store
			if err2 := e.open(w, m.PubPass); err2 != nil {
				return vlib.Failf("restart:reopen-failed", "%s: reopen with the current public passphrase failed after a refused open: %v", where, err2)
			}
			if after := vfStoreDigest(w); after != before {
				return vlib.Failf("restart:refused-open-altered-store", "%s: logical content of the store changed by a refused open", where)
			}
			e.c.Label("refused-open")
		} else if err != nil {
			if !ValidatePassphrase([]byte(pub)) {
				if err2 := e.open(w, m.PubPass); err2 != nil {
					return vlib.Failf("restart:reopen-failed", "%s: %v", where, err2)
				}
			} else {
				return vlib.Failf("restart:reopen-failed", "%s: reopen with the current public passphrase failed: %v", where, err)
			}
		} else if wrong {
			m.PubPass = pub // empty wallet: any legal passphrase opens it and becomes the public passphrase
		}
		m.Unlocked = false
		e.st.mutSinceRestart = false
	case "sign":
		if f := e.sign(w, op, where); f != nil {
			return f
		}
	default:
		return vlib.Failf("harness:unknown-op", "%s", op.K)
	}
	if mutated {
		e.st.mutSinceRestart = true
	}
	if len(m.Order) >= 2 {
		e.st.multiKs++
	}
	for _, ww := range e.w {
		if f := e.compare(ww, where); f != nil {
			return f
		}
		if e.opt != nil && e.opt.Secrets {
			if f := e.secrets(ww, where); f != nil {
				return f
			}
		}
	}
	if e.opt != nil && e.opt.AfterStep != nil {
		if f := e.opt.AfterStep(e, op); f != nil {
			return f
		}
	}
	return nil
}

// sign: C05 oracle — the signature verifies (chain library) under exactly the requested key and digest
func (e *vfEnv) sign(w *vfW, op *vfWOp, where string) *vlib.Failure {
	m := w.m
	mk := m.pick(op.Ks)
	b := 0
	if op.Int {
		b = 1
	}
	var key *vfMKey
	keyIdx := 0
	if mk != nil && len(mk.Br[b]) > 0 {
		keyIdx = op.N % len(mk.Br[b])
		if op.N < 0 {
			// counted from the end: -1 is the key issued last on that branch
			keyIdx = len(mk.Br[b]) - 1 - ((-op.N - 1) % len(mk.Br[b]))
		}
		key = &mk.Br[b][keyIdx]
	}
	var pk *pocec.PublicKey
	foreign := false
	if key == nil || op.S == "foreign" {
		// a key the wallet does not own
		h := sha256.Sum256(append([]byte("vf-foreign"), op.Data...))
		priv, _ := pocec.PrivKeyFromBytes(pocec.S256(), h[:])
		pk = (*pocec.PublicKey)(&priv.PublicKey)
		foreign = true
	} else {
		pk = vfParsePub(key.Pub)
	}
	var sig *pocec.Signature
	var err error
	var digest []byte
	if op.Msg {
		sig, err = w.kmc.SignMessage(pk, op.Data)
		h := wire.HashH(op.Data)
		digest = h[:]
	} else {
		sig, err = w.kmc.SignHash(pk, op.Data)
		digest = op.Data
	}
	e.st.signs++
	switch {
	case foreign:
		if err == nil {
			return vlib.Failf("sign:foreign-key-accepted", "%s: signing for a key the wallet does not own succeeded", where)
		}
	case !m.Unlocked:
		if err == nil {
			return vlib.Failf("sign:while-locked", "%s: signing succeeded while the wallet is locked", where)
		}
	case !op.Msg && len(op.Data) != 32:
		if err == nil {
			return vlib.Failf("sign:bad-hash-length-accepted", "%s: SignHash accepted a %d byte hash", where, len(op.Data))
		}
	default:
		if err != nil || sig == nil {
			return vlib.Failf("sign:rejected", "%s: signing for issued key %s (branch %d) failed while unlocked: %v", where, key.Pub, b, err)
		}
		if !sig.Verify(digest, pk) {
			return vlib.Failf("sign:does-not-verify", "%s: signature for key %s does not verify under that key", where, key.Pub)
		}
		// must not verify under any other issued key
		for _, o := range m.Ks {
			for bb := 0; bb < 2; bb++ {
				for _, k2 := range o.Br[bb] {
					if k2.Pub != key.Pub && sig.Verify(digest, vfParsePub(k2.Pub)) {
						return vlib.Failf("sign:verifies-under-other-key", "%s: signature requested for %s verifies under %s", where, key.Pub, k2.Pub)
					}
				}
			}
		}
		other := sha256.Sum256(digest)
		if sig.Verify(other[:], pk) {
			return vlib.Failf("sign:verifies-other-digest", "%s: signature verifies for a different digest", where)
		}
		e.st.signsOK++
		if b == 1 {
			e.st.signedInternal = true
		}
		if mk.IssuedLocked[b][keyIdx] {
			e.st.signedAfterTransition = true
		}
	}
	return nil
}

// vfStoreDigest: logical content of the wallet store through a raw LevelDB iterator.
func vfStoreDigest(w *vfW) string {
	l, ok := w.store.(*ldb.LevelDB)
	if !ok {
		if u, ok2 := w.store.(interface{ Unwrap() walletdb.DB }); ok2 {
			l, _ = u.Unwrap().(*ldb.LevelDB)
		}
	}
	if l == nil {
		return "?"
	}
	h := sha256.New()
	it := l.LDb.NewIterator(nil, nil)
	for it.Next() {
		fmt.Fprintf(h, "%d:%x=%d:%x;", len(it.Key()), it.Key(), len(it.Value()), it.Value())
	}
	it.Release()
	return hex.EncodeToString(h.Sum(nil))
}

var fastScryptVf = &ScryptOptions{N: 16, R: 8, P: 1}

// vfRunWallet interprets a program. It returns the environment's statistics through ctx labels.
func vfRunWallet(p *vfWProg, c *vlib.Ctx, opt *vfOpt) (*vfEnv, *vlib.Failure) {
	e, err := vfNewEnv(p, c, opt)
	if err != nil {
		return nil, vlib.Failf("harness:setup", "%v", err)
	}
	defer e.close()
	for i := range p.Ops {
		if f := e.step(i, &p.Ops[i]); f != nil {
			return e, f
		}
	}
	if opt != nil && opt.AtEnd != nil {
		if f := opt.AtEnd(e); f != nil {
			return e, f
		}
	}
	return e, nil
}

// ---------------------------------------------------------------------------------------------------
// tampering with exported keystore files (C01)

var vfTamFields = []string{"remark", "crypto.cipher", "crypto.masterHDPrivKeyEnc", "crypto.kdf", "crypto.pubParams", "crypto.privParams",
	"crypto.cryptoKeyPubEnc", "crypto.cryptoKeyPrivEnc", "hdPath.Purpose", "hdPath.Coin", "hdPath.Account", "hdPath.ExternalChildNum", "hdPath.InternalChildNum"}

// fields of which the importer verifies every byte
var vfTamVerified = map[string]bool{"crypto.privParams": true, "crypto.cryptoKeyPrivEnc": true, "crypto.masterHDPrivKeyEnc": true}

func vfTamper(js []byte, t *vfTam, all []*vfExport) ([]byte, string, bool) {
	var doc map[string]interface{}
	dec := json.NewDecoder(bytes.NewReader(js))
	dec.UseNumber()
	if dec.Decode(&doc) != nil {
		return nil, "", false
	}
	parts := strings.Split(t.Field, ".")
	var parent map[string]interface{} = doc
	if len(parts) == 2 {
		parent, _ = doc[parts[0]].(map[string]interface{})
		if parent == nil {
			return nil, "", false
		}
	}
	leaf := parts[len(parts)-1]
	cur, ok := parent[leaf]
	if !ok {
		return nil, "", false
	}
	arg := t.Arg
	if arg < 0 {
		arg = -arg
	}
	switch t.Kind {
	case "remove":
		delete(parent, leaf)
	case "type":
		switch cur.(type) {
		case string:
			parent[leaf] = 12345
		default:
			parent[leaf] = "x"
		}
	case "bitflip", "tailflip", "truncate", "nonhex":
		s, isStr := cur.(string)
		if !isStr {
			n, _ := cur.(json.Number)
			v, _ := n.Int64()
			parent[leaf] = v ^ (1 << uint(arg%5))
			break
		}
		if len(s) == 0 {
			parent[leaf] = "00"
			break
		}
		bs := []byte(s)
		switch t.Kind {
		case "bitflip":
			pos := arg % len(bs)
			if raw, err := hex.DecodeString(s); err == nil && len(raw) > 0 {
				raw[arg%len(raw)] ^= 1 << uint((arg+t.Bit)%8)
				bs = []byte(hex.EncodeToString(raw))
			} else {
				bs[pos] ^= 1
			}
		case "tailflip":
			// the last 24 bytes of a hex field: the scrypt cost parameters of *Params, the end of a sealed box
			if raw, err := hex.DecodeString(s); err == nil && len(raw) > 0 {
				raw[len(raw)-1-arg%min(len(raw), 24)] ^= 1 << uint((arg/24+t.Bit)%8)
				bs = []byte(hex.EncodeToString(raw))
			} else {
				bs[len(bs)-1] ^= 1
			}
		case "truncate":
			bs = bs[:len(bs)-1-(arg%min(len(bs), 4))]
		case "nonhex":
			bs[arg%len(bs)] = 'z'
		}
		parent[leaf] = string(bs)
	case "delta":
		n, isNum := cur.(json.Number)
		if !isNum {
			return nil, "", false
		}
		v, _ := n.Int64()
		d := int64(arg%8) + 1
		if t.Arg < 0 && v-d >= 0 {
			v -= d
		} else {
			v += d
		}
		parent[leaf] = v
	case "swap":
		// take the same field from another export
		for k := 1; k <= len(all); k++ {
			o := all[(arg+k)%len(all)]
			var od map[string]interface{}
			d2 := json.NewDecoder(bytes.NewReader(o.JSON))
			d2.UseNumber()
			if d2.Decode(&od) != nil {
				continue
			}
			op := od
			if len(parts) == 2 {
				op, _ = od[parts[0]].(map[string]interface{})
			}
			if op == nil {
				continue
			}
			if ov, ok := op[leaf]; ok && fmt.Sprint(ov) != fmt.Sprint(cur) {
				parent[leaf] = ov
				goto done
			}
		}
		return nil, "", false
	default:
		return nil, "", false
	}
done:
	out, err := json.Marshal(doc)
	if err != nil {
		return nil, "", false
	}
	if after, ok := parent[leaf]; ok && fmt.Sprint(after) == fmt.Sprint(cur) {
		return nil, "", false
	}
	return out, t.Field, true
}

// ---------------------------------------------------------------------------------------------------
// generators

var vfPassPool = []string{"Alpha1#passw", "Bravo2$passw0rd", "Charlie3%pw", "Delta4^passphrase&Delta4", "Echo55@pw",
	"Foxtrot6@maximum#length$passphrase%40ch^", "Golf7&"} // includes the maximal (40) and minimal (6) legal lengths
var vfPubPool = []string{"Public1#pass", "Public2$other", "Pub3%third@pw"}
var vfBadPass = []string{"", "abc", "12345", "has space in it", "exclaim!mark1", strings.Repeat("x", 41), "tab\tchar12", "nul\x00byte1"}
var vfRemarks = []string{"", "r", "my wallet", "备注✓", "a\"b\\c", strings.Repeat("R", 70), "  ", "null"}

type vfGenCfg struct {
	SignFresh  bool // after an issuance, often sign with the key just issued
	MaxOps     int
	TwoWallets bool
	Weights    map[string]int
	BadPass    bool // draw ill-formed / non-current passphrases for privileged operations
	Tamper     bool
	Sign       bool
	NoRndPass  bool // only passphrases from the pools (C04: random ones could coincide with hex text)
	NoNilSeed  bool // always pass an explicit seed
	Bulk       int  // >0: one in Bulk "next" operations asks for 60-140 addresses at once (the code sets no limit on the count)
}

func vfGenSeed(t *rapid.T, noNil bool) []byte {
	switch rapid.IntRange(0, 9).Draw(t, "seedKind") {
	case 0:
		if noNil {
			return rapid.SliceOfN(rapid.Byte(), 32, 32).Draw(t, "seedN")
		}
		return nil
	case 1, 2:
		// small pool -> duplicates across keystores and wallets
		s := sha256.Sum256([]byte{byte(rapid.IntRange(0, 2).Draw(t, "seedPool"))})
		return s[:]
	case 3:
		return rapid.SliceOfN(rapid.Byte(), 0, 40).Draw(t, "oddSeed")
	default:
		return rapid.SliceOfN(rapid.Byte(), 32, 32).Draw(t, "seed")
	}
}

func vfGenPrivSel(t *rapid.T, bad bool, label string) string {
	n := 22
	if !bad {
		n = 9
	}
	switch k := rapid.IntRange(0, n).Draw(t, label); {
	case k >= 20:
		return "near:" + rapid.SampledFrom([]string{"append", "trunc", "case", "double"}).Draw(t, label+"Near")
	case k <= 8:
		return "cur"
	case k <= 10:
		return "old"
	case k == 11:
		return "old0"
	case k <= 13:
		return "pub"
	case k <= 16:
		return "lit:" + rapid.SampledFrom(vfPassPool).Draw(t, label+"Lit")
	default:
		return "lit:" + rapid.SampledFrom(vfBadPass).Draw(t, label+"Bad")
	}
}

func vfGenNewPass(t *rapid.T, bad bool, label string, noRnd ...bool) string {
	switch k := rapid.IntRange(0, 11).Draw(t, label); {
	case k == 8 && len(noRnd) > 0 && noRnd[0]:
		return "lit:" + rapid.SampledFrom(vfPassPool).Draw(t, label+"Lit3")
	case k <= 7:
		return "lit:" + rapid.SampledFrom(vfPassPool).Draw(t, label+"Lit")
	case k == 8:
		return "lit:" + rapid.StringMatching(`[0-9a-zA-Z@#$%^&]{6,40}`).Draw(t, label+"Rnd")
	case k == 9:
		return "pub"
	case k == 10:
		return "cur"
	default:
		if bad {
			return "lit:" + rapid.SampledFrom(vfBadPass).Draw(t, label+"Bad")
		}
		return "lit:" + rapid.SampledFrom(vfPassPool).Draw(t, label+"Lit2")
	}
}

func vfGenOpKind(t *rapid.T, w map[string]int) string {
	keys := make([]string, 0, len(w))
	for k := range w {
		keys = append(keys, k)
	}
	sort.Strings(keys)
	var pool []string
	for _, k := range keys {
		for i := 0; i < w[k]; i++ {
			pool = append(pool, k)
		}
	}
	return rapid.SampledFrom(pool).Draw(t, "op")
}

var vfDefaultWeights = map[string]int{"new": 4, "next": 8, "gen": 5, "remark": 3, "chpriv": 2, "chpub": 2, "delete": 2, "export": 3, "import": 3, "xfer": 4,
	"lock": 3, "unlock": 5, "restart": 5, "sign": 0}

func vfGenWOp(t *rapid.T, cfg *vfGenCfg) vfWOp {
	w := cfg.Weights
	if w == nil {
		w = vfDefaultWeights
	}
	op := vfWOp{K: vfGenOpKind(t, w)}
	if cfg.TwoWallets && rapid.IntRange(0, 3).Draw(t, "wallet") == 0 {
		op.W = 1
	}
	switch op.K {
	case "new":
		op.Seed = vfGenSeed(t, cfg.NoNilSeed)
		op.Pass = vfGenPrivSel(t, cfg.BadPass, "newPass")
		if op.Pass == "cur" && rapid.IntRange(0, 5).Draw(t, "newLit") == 0 {
			op.Pass = "lit:" + rapid.SampledFrom(vfPassPool).Draw(t, "newPassLit")
		}
		op.S = rapid.SampledFrom(vfRemarks).Draw(t, "remark")
	case "next":
		op.Ks = rapid.IntRange(0, 3).Draw(t, "ks")
		op.Int = rapid.Bool().Draw(t, "internal")
		op.N = rapid.IntRange(0, 4).Draw(t, "n")
		if cfg.Bulk > 0 && rapid.IntRange(0, cfg.Bulk-1).Draw(t, "bulk") == 0 {
			// child index >= 95 puts every byte value into the little-endian index part of the store keys
			op.N = rapid.IntRange(60, 140).Draw(t, "nBulk")
		}
	case "remark":
		op.Ks = rapid.IntRange(0, 3).Draw(t, "ks")
		if rapid.IntRange(0, 4).Draw(t, "rndRemark") == 0 {
			op.S = rapid.String().Draw(t, "remarkRnd")
		} else {
			op.S = rapid.SampledFrom(vfRemarks).Draw(t, "remark")
		}
	case "chpriv":
		op.Pass = vfGenPrivSel(t, cfg.BadPass, "oldPriv")
		op.New = vfGenNewPass(t, cfg.BadPass, "newPriv", cfg.NoRndPass)
	case "chpub":
		if rapid.IntRange(0, 4).Draw(t, "oldPubKind") == 0 {
			op.Pass = vfGenPrivSel(t, true, "oldPubSel")
		} else {
			op.Pass = "pub"
		}
		switch k := rapid.IntRange(0, 9).Draw(t, "newPubKind"); {
		case k <= 6:
			op.New = "lit:" + rapid.SampledFrom(vfPubPool).Draw(t, "newPub")
		case k == 7:
			op.New = "cur"
		case k == 8:
			op.New = "pub"
		default:
			op.New = "lit:" + rapid.SampledFrom(vfBadPass).Draw(t, "newPubBad")
		}
	case "delete", "export":
		op.Ks = rapid.IntRange(0, 3).Draw(t, "ks")
		op.Pass = vfGenPrivSel(t, cfg.BadPass, "pass")
	case "xfer":
		op.Ks = rapid.IntRange(0, 3).Draw(t, "ks")
		op.N = rapid.IntRange(0, 5).Draw(t, "xferMode")
		op.Int = rapid.IntRange(0, 2).Draw(t, "sameWallet") == 0
		op.Pass = "export"
		if cfg.BadPass && rapid.IntRange(0, 7).Draw(t, "xferBadOld") == 0 {
			op.Pass = vfGenPrivSel(t, true, "xferOldSel")
		}
		op.New = rapid.SampledFrom([]string{"auto", "auto", "auto", "auto", "auto", "", "same", "cur", "lit:" + vfPassPool[1], "pub"}).Draw(t, "xferNew")
		if cfg.Tamper && rapid.IntRange(0, 2).Draw(t, "tamper") == 0 {
			op.Tam = &vfTam{Field: rapid.SampledFrom(vfTamFields).Draw(t, "tamField"),
				Kind: rapid.SampledFrom([]string{"bitflip", "bitflip", "tailflip", "truncate", "nonhex", "swap", "type", "remove", "delta"}).Draw(t, "tamKind"),
				Arg:  rapid.IntRange(-40, 400).Draw(t, "tamArg"), Bit: rapid.IntRange(0, 7).Draw(t, "tamBit")}
		}
	case "import":
		op.Ex = rapid.IntRange(0, 5).Draw(t, "ex")
		switch rapid.IntRange(0, 7).Draw(t, "impOld") {
		case 0:
			if cfg.BadPass {
				op.Pass = vfGenPrivSel(t, true, "impOldSel")
			} else {
				op.Pass = "export"
			}
		default:
			op.Pass = "export"
		}
		op.New = rapid.SampledFrom([]string{"auto", "auto", "auto", "auto", "", "same", "cur", "lit:" + vfPassPool[0], "lit:" + vfPassPool[1], "pub"}).Draw(t, "impNew")
		if rapid.IntRange(0, 2).Draw(t, "autoTarget") != 0 {
			op.W = 2
		}
		if cfg.Tamper && rapid.IntRange(0, 2).Draw(t, "tamper") == 0 {
			op.Tam = &vfTam{Field: rapid.SampledFrom(vfTamFields).Draw(t, "tamField"),
				Kind: rapid.SampledFrom([]string{"bitflip", "bitflip", "tailflip", "truncate", "nonhex", "swap", "type", "remove", "delta"}).Draw(t, "tamKind"),
				Arg:  rapid.IntRange(-40, 400).Draw(t, "tamArg"), Bit: rapid.IntRange(0, 7).Draw(t, "tamBit")}
		}
	case "unlock":
		op.Pass = vfGenPrivSel(t, true, "unlockPass")
	case "restart":
		if rapid.IntRange(0, 5).Draw(t, "wrongPub") == 0 {
			op.Pass = "lit:" + rapid.SampledFrom(append(append([]string{}, vfPubPool...), vfPassPool[0], "short")).Draw(t, "restartPub")
		}
	case "sign":
		op.Ks = rapid.IntRange(0, 3).Draw(t, "ks")
		op.Int = rapid.Bool().Draw(t, "internal")
		op.N = rapid.IntRange(0, 7).Draw(t, "keyIdx")
		op.Msg = rapid.Bool().Draw(t, "msg")
		if op.Msg {
			op.Data = rapid.SliceOfN(rapid.Byte(), 0, 200).Draw(t, "message")
		} else {
			switch rapid.IntRange(0, 9).Draw(t, "hashKind") {
			case 0:
				op.Data = make([]byte, 32)
			case 1:
				op.Data = bytes.Repeat([]byte{0xff}, 32)
			case 2:
				op.Data = rapid.SliceOfN(rapid.Byte(), 0, 40).Draw(t, "oddHash")
			default:
				op.Data = rapid.SliceOfN(rapid.Byte(), 32, 32).Draw(t, "hash")
			}
		}
		if rapid.IntRange(0, 9).Draw(t, "foreign") == 0 {
			op.S = "foreign"
		}
	}
	return op
}

func vfGenWProg(t *rapid.T, cfg *vfGenCfg) vfWProg {
	p := vfWProg{PubA: vfPubPool[0], PubB: vfPubPool[1]}
	if rapid.IntRange(0, 4).Draw(t, "samePub") == 0 {
		p.PubB = vfPubPool[0]
	}
	// a typical prefix so that most histories have something to work with
	n := rapid.IntRange(1, cfg.MaxOps).Draw(t, "nops")
	if rapid.IntRange(0, 9).Draw(t, "prefix") != 0 {
		p.Ops = append(p.Ops, vfWOp{K: "new", Seed: rapid.SliceOfN(rapid.Byte(), 32, 32).Draw(t, "seed0"), Pass: "lit:" + vfPassPool[0], S: "first"})
	}
	for i := 0; i < n; i++ {
		op := vfGenWOp(t, cfg)
		p.Ops = append(p.Ops, op)
		if cfg.SignFresh && (op.K == "next" || op.K == "gen") && rapid.IntRange(0, 2).Draw(t, "signFresh") != 0 {
			// use the key that was just handed out, in the state the wallet is in right now
			sg := vfWOp{K: "sign", W: op.W, Ks: op.Ks, Int: op.Int && op.K == "next", N: -1, Data: rapid.SliceOfN(rapid.Byte(), 32, 32).Draw(t, "freshHash"), Msg: rapid.Bool().Draw(t, "freshMsg")}
			p.Ops = append(p.Ops, sg)
		}
	}
	return p
}

func (e *vfEnv) labels() {
	c := e.c
	s := &e.st
	c.LabelN("restarts", s.restarts)
	c.LabelN("imports-ok", s.importsOK)
	c.LabelN("imports", s.imports)
	c.LabelN("deletes", s.deletes)
	c.LabelN("priv-changes", s.privChanges)
	c.LabelN("pub-changes", s.pubChanges)
	c.LabelN("keys-issued-locked", s.issuedLocked)
	c.LabelN("keys-issued-unlocked", s.issuedUnlocked)
	c.LabelN("plot-keys", s.plotKeys)
	c.LabelN("rejected-calls", s.rejected)
	c.LabelN("signs-ok", s.signsOK)
	c.LabelN("tamper-tried", s.tamperTried)
	if s.restartAfterMut > 0 {
		c.Label("case:restart-after-mutation")
	}
	if s.multiKs > 0 {
		c.Label("case:multi-keystore")
	}
}
