package keystore

// C06 — plot public keys are issued once, with stable ordinals (DESIGN.md §4 C06).
// (i) sequential histories interleaving plot-key issuance with address generation, restarts, export/import and
// lock changes (engine oracle: new key, ordinal = index in the owning keystore, consecutive, stable lookup);
// (ii) concurrent bursts of GenerateNewPublicKey/NextAddresses from 2-8 goroutines (built with -race);
// (iii) the keeper side (plot file names re-indexed after restart) lives in the capacity harness.

import (
	"encoding/hex"
	"fmt"
	"os"
	"runtime"
	"sync"
	"testing"

	"github.com/massnetorg/mass-core/pocec"
	"massnet.org/mass/config"

	"pgregory.net/rapid"
	"verif/vlib"
)

var vfC06Cfg = &vfGenCfg{MaxOps: 30, TwoWallets: true, BadPass: false, Bulk: 8,
	Weights: map[string]int{"new": 3, "next": 6, "gen": 14, "remark": 1, "chpriv": 1, "chpub": 1, "delete": 1, "export": 1, "import": 1, "xfer": 3,
		"lock": 3, "unlock": 3, "restart": 5, "sign": 1}}

var vfC06Spec = vlib.Spec[vfWProg]{
	Prop: "C06", Name: "ordinals-sequential",
	Rule: "wallet histories dominated by GenerateNewPublicKey interleaved with NextAddresses on both branches, restarts, export/delete/import, lock changes, 1-3 keystores on two wallets; oracle per issuance: the key was never returned before by this wallet, exactly one keystore owns it, ordinal = number of external keys that keystore had issued (consecutive, no gap, no reuse), and after every later step GetPublicKeyOrdinal returns the same ordinal (also after restart / re-import); non-trivial = >=2 plot keys issued AND >=1 other address generation AND >=1 restart in the history; distinct = distinct program JSON",
	Gen:  func(t *rapid.T) vfWProg { return vfGenWProg(t, vfC06Cfg) },
	Run: func(p vfWProg, c *vlib.Ctx) *vlib.Failure {
		e, f := vfRunWallet(&p, c, &vfOpt{})
		if e != nil {
			e.labels()
			if e.st.plotKeys >= 2 && e.st.issuedLocked+e.st.issuedUnlocked > e.st.plotKeys && e.st.restarts > 0 {
				c.NonTrivial()
			}
		}
		return f
	},
}

func TestVerif_C06(t *testing.T) { vlib.Both(t, vfC06Spec) }

// ---- concurrent bursts -----------------------------------------------------------------------------

type vfC06Burst struct {
	NKs       int   `json:"nks"`
	Pre       []int `json:"pre"`       // external keys issued before the burst, per keystore
	Workers   []int `json:"workers"`   // per goroutine: number of GenerateNewPublicKey calls
	NextEvery int   `json:"nextEvery"` // every n-th call of odd workers is NextAddresses(external,1) instead
	Unlocked  bool  `json:"unlocked"`
	Procs     int   `json:"procs"`
	Restart   bool  `json:"restart"`
}

func vfGenC06Burst(t *rapid.T) vfC06Burst {
	b := vfC06Burst{NKs: rapid.IntRange(1, 3).Draw(t, "nks"), Unlocked: rapid.Bool().Draw(t, "unlocked"), Procs: rapid.SampledFrom([]int{1, 2, 4, 8, 16}).Draw(t, "procs"),
		NextEvery: rapid.IntRange(0, 3).Draw(t, "nextEvery"), Restart: rapid.Bool().Draw(t, "restart")}
	for i := 0; i < b.NKs; i++ {
		b.Pre = append(b.Pre, rapid.IntRange(0, 3).Draw(t, "pre"))
	}
	n := rapid.IntRange(2, 8).Draw(t, "workers")
	for i := 0; i < n; i++ {
		b.Workers = append(b.Workers, rapid.IntRange(1, 5).Draw(t, "calls"))
	}
	return b
}

func vfC06BurstRun(b vfC06Burst, c *vlib.Ctx) *vlib.Failure {
	vfSetup()
	dir, err := os.MkdirTemp("", "vfc06")
	if err != nil {
		panic(err)
	}
	defer os.RemoveAll(dir)
	path := dir + "/keystore"
	store, err := vfOpenLevel(path, true)
	if err != nil {
		return vlib.Failf("harness:open", "%v", err)
	}
	closeStore := func() {
		if store != nil {
			store.Close()
			store = nil
		}
	}
	defer closeStore()
	kmc, err := NewKeystoreManagerForPoC(store, []byte(vfPubPool[0]), config.ChainParams)
	if err != nil {
		return vlib.Failf("harness:open", "%v", err)
	}
	type issued struct {
		ks  string
		ord uint32
	}
	seen := map[string]issued{}
	var ids []string
	for k := 0; k < b.NKs; k++ {
		seed := make([]byte, 32)
		seed[0], seed[7] = byte(k+1), 0xc6
		id, err := kmc.NewKeystore([]byte(vfC14Pass), seed, "", config.ChainParams, fastScryptVf)
		if err != nil {
			return vlib.Failf("harness:new", "%v", err)
		}
		ids = append(ids, id)
		mas, err := kmc.NextAddresses(id, false, uint32(b.Pre[k]))
		if err != nil {
			return vlib.Failf("harness:next", "%v", err)
		}
		for _, ma := range mas {
			seen[hex.EncodeToString(ma.pubKey.SerializeCompressed())] = issued{id, ma.derivationPath.Index}
		}
	}
	if b.Unlocked {
		kmc.Unlock([]byte(vfC14Pass))
	}
	old := runtime.GOMAXPROCS(b.Procs)
	defer runtime.GOMAXPROCS(old)
	type rec struct {
		pk  *pocec.PublicKey
		ord uint32
		ks  string
	}
	var mu sync.Mutex
	var got []rec
	var first *vlib.Failure
	start := make(chan struct{})
	var wg sync.WaitGroup
	for wi, n := range b.Workers {
		wg.Add(1)
		go func(wi, n int) {
			defer wg.Done()
			defer func() {
				if r := recover(); r != nil {
					mu.Lock()
					if first == nil {
						first = vlib.Failf("panic-in-wallet-call", "worker %d: %v", wi, r)
					}
					mu.Unlock()
				}
			}()
			<-start
			for j := 0; j < n; j++ {
				if b.NextEvery > 0 && wi%2 == 1 && j%b.NextEvery == 0 {
					id := ids[(wi+j)%len(ids)]
					mas, err := kmc.NextAddresses(id, false, 1)
					if err != nil || len(mas) != 1 {
						mu.Lock()
						if first == nil {
							first = vlib.Failf("burst:next-failed", "worker %d: %v", wi, err)
						}
						mu.Unlock()
						return
					}
					mu.Lock()
					got = append(got, rec{mas[0].pubKey, mas[0].derivationPath.Index, id})
					mu.Unlock()
					continue
				}
				pk, ord, err := kmc.GenerateNewPublicKey()
				if err != nil || pk == nil {
					mu.Lock()
					if first == nil {
						first = vlib.Failf("burst:gen-failed", "worker %d: %v", wi, err)
					}
					mu.Unlock()
					return
				}
				mu.Lock()
				got = append(got, rec{pk, ord, ""})
				mu.Unlock()
			}
		}(wi, n)
	}
	close(start)
	wg.Wait()
	if first != nil {
		return first
	}
	check := func(k *KeystoreManagerForPoC, where string) *vlib.Failure {
		per := map[string]map[uint32]string{}
		for id, v := range seen {
			if per[v.ks] == nil {
				per[v.ks] = map[uint32]string{}
			}
			per[v.ks][v.ord] = id
		}
		total := len(seen)
		for _, r := range got {
			h := hex.EncodeToString(r.pk.SerializeCompressed())
			if _, dup := seen[h]; dup {
				return vlib.Failf("burst:key-returned-twice", "%s: key %s was returned by two requests", where, h)
			}
			var owner string
			for _, am := range k.GetManagedAddrManager() {
				if _, err := am.Address(vfIndependentAddr(h)); err == nil {
					owner = am.Name()
				}
			}
			if owner == "" || (r.ks != "" && owner != r.ks) {
				return vlib.Failf("burst:no-owner", "%s: returned key %s is held by keystore %q (requested %q)", where, h, owner, r.ks)
			}
			if per[owner] == nil {
				per[owner] = map[uint32]string{}
			}
			if other, dup := per[owner][r.ord]; dup {
				return vlib.Failf("burst:ordinal-reused", "%s: ordinal %d of keystore %s was given to %s and %s", where, r.ord, owner, other, h)
			}
			per[owner][r.ord] = h
			seen[h] = issued{owner, r.ord}
			o2, ok := k.GetPublicKeyOrdinal(r.pk)
			if !ok || o2 != r.ord {
				return vlib.Failf("burst:ordinal-lookup", "%s: GetPublicKeyOrdinal(%s)=(%d,%v), issued with %d", where, h, o2, ok, r.ord)
			}
			total++
		}
		for ks, m := range per {
			for i := 0; i < len(m); i++ {
				if _, ok := m[uint32(i)]; !ok {
					return vlib.Failf("burst:ordinal-gap", "%s: keystore %s issued %d keys but ordinal %d is missing (ordinals %v)", where, ks, len(m), i, fmt.Sprint(m))
				}
			}
		}
		got = nil
		// after the burst every key of `seen` must still resolve
		for h, v := range seen {
			b, _ := hex.DecodeString(h)
			pk, _ := pocec.ParsePubKey(b, pocec.S256())
			if o, ok := k.GetPublicKeyOrdinal(pk); !ok || o != v.ord {
				return vlib.Failf("burst:ordinal-lookup", "%s: key %s ordinal (%d,%v), issued with %d", where, h, o, ok, v.ord)
			}
		}
		for _, am := range k.GetManagedAddrManager() {
			e, _ := am.CountAddresses()
			if e != len(per[am.Name()]) || int(am.branchInfo.nextExternalIndex) != e {
				return vlib.Failf("burst:counter", "%s: keystore %s has %d external addresses, next index %d, issued %d", where, am.Name(), e, am.branchInfo.nextExternalIndex, len(per[am.Name()]))
			}
		}
		return nil
	}
	if f := check(kmc, "after burst"); f != nil {
		return f
	}
	if b.Restart {
		closeStore()
		store, err = vfOpenLevel(path, false)
		if err != nil {
			return vlib.Failf("reopen-failed", "%v", err)
		}
		kmc2, err := NewKeystoreManagerForPoC(store, []byte(vfPubPool[0]), config.ChainParams)
		if err != nil {
			return vlib.Failf("reopen-failed", "%v", err)
		}
		if f := check(kmc2, "after restart"); f != nil {
			return f
		}
		// the next key continues the sequence
		pk, ord, err := kmc2.GenerateNewPublicKey()
		if err != nil {
			return vlib.Failf("burst:gen-failed", "after restart: %v", err)
		}
		got = append(got, rec{pk, ord, ""})
		if f := check(kmc2, "after restart + 1"); f != nil {
			return f
		}
	}
	c.LabelN("workers", len(b.Workers))
	if len(b.Workers) >= 3 {
		c.NonTrivial()
	}
	return nil
}

var vfC06BurstSpec = vlib.Spec[vfC06Burst]{
	Prop: "C06", Name: "ordinals-concurrent-burst", NoShrink: true,
	Rule: "concurrent bursts: 2-8 goroutines each issuing 1-5 plot keys (odd workers mix in NextAddresses on the external branch) on 1-3 keystores, GOMAXPROCS in {1..16}, optional restart afterwards; built with -race; oracle: all returned keys distinct, per keystore the ordinals issued are exactly {0..n-1} (no reuse, no gap) including keys issued before the burst, ordinal lookup stable, counters equal, also after restart; non-trivial = burst with >=3 goroutines; distinct = distinct burst JSON",
	Gen:  vfGenC06Burst, Run: vfC06BurstRun,
}

func TestVerif_C06Race(t *testing.T) { vlib.Both(t, vfC06BurstSpec) }
