package keystore

// C02 — wallet state survives restart exactly (DESIGN.md §4 C02).

import (
	"testing"

	"pgregory.net/rapid"
	"verif/vlib"
)

var vfC02Cfg = &vfGenCfg{MaxOps: 28, TwoWallets: true, BadPass: false, Bulk: 10}

var vfC02Spec = vlib.Spec[vfWProg]{
	Prop: "C02", Name: "restart-vs-model",
	Rule: "histories of <=29 wallet operations (create, addresses on both branches, plot keys, remark, private/public passphrase change, delete, export/import between two wallets, lock/unlock, restart with the current or a wrong public passphrase) on two wallets; after every step the full observable state of both wallets (keystore ids, remarks, address sets, per-index keys, derivation paths, next indices, ordinals, lock state) is compared with the reference model; non-trivial = history contains a restart after at least one state-changing operation since the previous restart; distinct = distinct program JSON",
	Gen:  func(t *rapid.T) vfWProg { return vfGenWProg(t, vfC02Cfg) },
	Run: func(p vfWProg, c *vlib.Ctx) *vlib.Failure {
		e, f := vfRunWallet(&p, c, &vfOpt{})
		if e != nil {
			e.labels()
			if e.st.restartAfterMut > 0 {
				c.NonTrivial()
			}
		}
		return f
	},
}

func TestVerif_C02(t *testing.T) { vlib.Both(t, vfC02Spec) }
