package db

// C19 — the wallet bucket store behaves as a tree of isolated maps with atomic transactions.
// Generated programs (transactions of bucket/key operations with adversarial names and keys, commit /
// rollback / reopen points) are executed against the real LevelDB-backed store and against a reference model
// (tree of Go maps with a shadow copy per transaction). Every read is compared at once; after every
// transaction end and every reopen the whole store is dumped through the API and compared with the model.

import (
	"bytes"
	"fmt"
	"os"
	"sort"
	"strings"
	"testing"

	"github.com/syndtr/goleveldb/leveldb"
	"github.com/syndtr/goleveldb/leveldb/opt"
	"massnet.org/mass/poc/wallet/db"

	"pgregory.net/rapid"
	"verif/vlib"
)

type vfOp struct {
	K    string   `json:"k"`              // operation kind
	Path []string `json:"path,omitempty"` // bucket path (top level name first)
	Name string   `json:"name,omitempty"` // bucket name argument
	Key  []byte   `json:"key,omitempty"`
	Val  []byte   `json:"val,omitempty"`
}

type vfTxn struct {
	Write  bool   `json:"write"`
	Ops    []vfOp `json:"ops"`
	Commit bool   `json:"commit"`
	Reopen bool   `json:"reopen"` // close and reopen the store after this transaction
	// KeepHandles: bucket handles obtained in this transaction are kept and used again for later operations on the
	// same path (and as parents when a deeper bucket is looked up), the way a caller holding buckets in variables does
	KeepHandles bool `json:"keepHandles,omitempty"`
}

type vfProg struct {
	Txns []vfTxn `json:"txns"`
}

// ---- reference model -------------------------------------------------------------------------------

type vfMB struct {
	kv   map[string][]byte
	subs map[string]*vfMB
}

func vfNewMB() *vfMB { return &vfMB{kv: map[string][]byte{}, subs: map[string]*vfMB{}} }

func (m *vfMB) clone() *vfMB {
	c := vfNewMB()
	for k, v := range m.kv {
		c.kv[k] = append([]byte(nil), v...)
	}
	for k, v := range m.subs {
		c.subs[k] = v.clone()
	}
	return c
}

func vfValidName(n string) bool { return len(n) > 0 && len(n) <= 256 && !strings.Contains(n, "_") }

func (m *vfMB) resolve(path []string) *vfMB {
	cur := m
	for _, p := range path {
		if !vfValidName(p) && cur != m {
			return nil
		}
		nx, ok := cur.subs[p]
		if !ok {
			return nil
		}
		cur = nx
	}
	return cur
}

func (m *vfMB) names() []string {
	r := make([]string, 0, len(m.subs))
	for k := range m.subs {
		r = append(r, k)
	}
	sort.Strings(r)
	return r
}

func (m *vfMB) prefix(p []byte) [][2][]byte {
	var ks []string
	for k := range m.kv {
		if strings.HasPrefix(k, string(p)) {
			ks = append(ks, k)
		}
	}
	sort.Strings(ks)
	r := make([][2][]byte, 0, len(ks))
	for _, k := range ks {
		r = append(r, [2][]byte{[]byte(k), m.kv[k]})
	}
	return r
}

// ---- generators ------------------------------------------------------------------------------------

var vfNames = []string{"a", "b", "1", "10", "ab", "2", "b1", "a1", "1a", "x", "B", "0", "\x00", "\xff", "a b", "b.2"}
var vfBadNames = []string{"", "a_b", "_", "_a", "a_", strings.Repeat("n", 257)}
var vfKeys = [][]byte{
	[]byte("k"), []byte("k1"), []byte("a"), []byte("ab"), []byte("a_k"), []byte("1_a_k"), []byte("b_2_a_c"), []byte("_x"), []byte("_"),
	[]byte("b_k"), []byte("2_a_b_k"), []byte("b_1_a"), []byte("b_2_a_b"), {0}, {0xff}, []byte("a\x00"), []byte("a_"), []byte("a_b"), []byte("b"), []byte("_a_k"),
	[]byte("1"), []byte("10"), []byte("x_"), []byte("__"),
}

func vfGenName(t *rapid.T) string {
	switch rapid.IntRange(0, 19).Draw(t, "nameKind") {
	case 0:
		return rapid.SampledFrom(vfBadNames).Draw(t, "badName")
	case 1:
		return strings.Repeat("L", 256)
	case 2:
		return rapid.StringMatching(`[a-c0-2]{1,3}`).Draw(t, "rndName")
	default:
		return rapid.SampledFrom(vfNames[:8]).Draw(t, "name")
	}
}

func vfGenAnyName(t *rapid.T) string {
	if rapid.IntRange(0, 3).Draw(t, "wide") == 0 {
		return rapid.SampledFrom(vfNames).Draw(t, "nameW")
	}
	return vfGenName(t)
}

func vfGenPath(t *rapid.T, known *[][]string) []string {
	if len(*known) > 0 && rapid.IntRange(0, 9).Draw(t, "knownPath") < 8 {
		return append([]string(nil), rapid.SampledFrom(*known).Draw(t, "kpath")...)
	}
	d := rapid.SampledFrom([]int{1, 1, 2, 2, 2, 3, 3, 4, 11}).Draw(t, "depth")
	p := make([]string, d)
	if d > 4 {
		for i := range p {
			p[i] = "a"
		}
		return p[:rapid.IntRange(1, d).Draw(t, "cut")]
	}
	for i := range p {
		p[i] = rapid.SampledFrom(vfNames[:5]).Draw(t, "pname")
	}
	return p
}

func vfGenKey(t *rapid.T) []byte {
	switch rapid.IntRange(0, 9).Draw(t, "keyKind") {
	case 0:
		return []byte{}
	case 1:
		return rapid.SliceOfN(rapid.Byte(), 1, 6).Draw(t, "rndKey")
	case 2:
		// imitation of an inner key of an existing-looking bucket
		return []byte(fmt.Sprintf("%s_%s_%s", rapid.SampledFrom([]string{"1", "2", "3", "b_1", "b_2", "b_3"}).Draw(t, "im0"),
			rapid.SampledFrom(vfNames[:5]).Draw(t, "im1"), rapid.SampledFrom(vfNames[:5]).Draw(t, "im2")))
	default:
		return rapid.SampledFrom(vfKeys).Draw(t, "key")
	}
}

func vfGenVal(t *rapid.T) []byte {
	if rapid.IntRange(0, 11).Draw(t, "emptyVal") == 0 {
		return []byte{}
	}
	return rapid.SliceOfN(rapid.Byte(), 1, 5).Draw(t, "val")
}

var vfWriteKinds = []string{"createTop", "newBucket", "newBucket", "mkpath", "deleteBucket", "put", "put", "put", "put", "get", "get", "delete", "clear", "prefix", "names", "topNames", "put", "newBucket"}
var vfReadKinds = []string{"get", "get", "prefix", "names", "topNames", "put", "newBucket", "clear", "delete", "deleteBucket"}

func vfGenOp(t *rapid.T, write bool, known *[][]string) vfOp {
	kinds := vfReadKinds
	if write {
		kinds = vfWriteKinds
	}
	o := vfOp{K: rapid.SampledFrom(kinds).Draw(t, "kind")}
	switch o.K {
	case "createTop":
		o.Name = vfGenAnyName(t)
		if write && vfValidName(o.Name) {
			*known = append(*known, []string{o.Name})
		}
	case "newBucket", "deleteBucket":
		o.Path = vfGenPath(t, known)
		o.Name = vfGenAnyName(t)
		if write && o.K == "newBucket" && vfValidName(o.Name) {
			*known = append(*known, append(append([]string(nil), o.Path...), o.Name))
		}
	case "mkpath":
		o.Path = vfGenPath(t, known)
		if rapid.IntRange(0, 2).Draw(t, "extend") == 0 {
			o.Path = append(o.Path, vfGenName(t))
			if !vfValidName(o.Path[len(o.Path)-1]) {
				o.Path = o.Path[:len(o.Path)-1]
			}
		}
		if write {
			for i := 1; i <= len(o.Path); i++ {
				*known = append(*known, append([]string(nil), o.Path[:i]...))
			}
		}
	case "put":
		o.Path = vfGenPath(t, known)
		o.Key = vfGenKey(t)
		o.Val = vfGenVal(t)
	case "get", "delete", "prefix":
		o.Path = vfGenPath(t, known)
		o.Key = vfGenKey(t)
	case "clear", "names":
		o.Path = vfGenPath(t, known)
	}
	return o
}

func vfGenProg(t *rapid.T) vfProg {
	var p vfProg
	var kn [][]string
	known := &kn
	n := rapid.IntRange(1, 8).Draw(t, "ntx")
	for i := 0; i < n; i++ {
		tx := vfTxn{Write: rapid.IntRange(0, 4).Draw(t, "w") != 0}
		m := rapid.IntRange(1, 14).Draw(t, "nops")
		tx.KeepHandles = rapid.IntRange(0, 2).Draw(t, "keepHandles") == 0
		for j := 0; j < m; j++ {
			op := vfGenOp(t, tx.Write, known)
			tx.Ops = append(tx.Ops, op)
			if tx.Write && op.K == "deleteBucket" && vfValidName(op.Name) && rapid.Bool().Draw(t, "recreate") {
				// the bucket comes back under the same name in the same transaction and gets a key it may have had before
				tx.Ops = append(tx.Ops, vfOp{K: "newBucket", Path: op.Path, Name: op.Name})
				sub := append(append([]string(nil), op.Path...), op.Name)
				tx.Ops = append(tx.Ops, vfOp{K: "put", Path: sub, Key: rapid.SampledFrom(vfKeys).Draw(t, "reKey"), Val: vfGenVal(t)})
				*known = append(*known, sub)
			}
		}
		tx.Commit = rapid.IntRange(0, 3).Draw(t, "commit") != 0
		tx.Reopen = rapid.IntRange(0, 4).Draw(t, "reopen") == 0
		p.Txns = append(p.Txns, tx)
	}
	return p
}

// ---- execution ---------------------------------------------------------------------------------------

type vfTxLike interface {
	TopLevelBucket(name string) db.Bucket
	BucketNames() ([]string, error)
}

// vfResolveKept resolves like vfResolve but keeps every handle of the walk in cache and prefers kept handles.
func vfResolveKept(tx vfTxLike, path []string, cache map[string]db.Bucket) db.Bucket {
	if len(path) == 0 {
		return nil
	}
	var b db.Bucket
	for i := 1; i <= len(path); i++ {
		key := strings.Join(path[:i], "\x00/")
		if h, ok := cache[key]; ok && h != nil {
			b = h
			continue
		}
		if i == 1 {
			b = tx.TopLevelBucket(path[0])
		} else {
			b = b.Bucket(path[i-1])
		}
		if b == nil {
			return nil
		}
		cache[key] = b
	}
	return b
}

func vfDropKept(cache map[string]db.Bucket, path []string) {
	prefix := strings.Join(path, "\x00/")
	for k := range cache {
		if k == prefix || strings.HasPrefix(k, prefix+"\x00/") {
			delete(cache, k)
		}
	}
}

func vfResolve(tx vfTxLike, path []string) db.Bucket {
	if len(path) == 0 {
		return nil
	}
	b := tx.TopLevelBucket(path[0])
	for _, p := range path[1:] {
		if b == nil {
			return nil
		}
		b = b.Bucket(p)
	}
	return b
}

func vfEqNames(a, b []string) bool {
	if len(a) != len(b) {
		return false
	}
	for i := range a {
		if a[i] != b[i] {
			return false
		}
	}
	return true
}

// vfDump compares the whole store (through any transaction) with the model.
func vfDump(tx vfTxLike, m *vfMB, where string) *vlib.Failure {
	names, err := tx.BucketNames()
	if err != nil {
		return vlib.Failf("dump-error", "%s: top BucketNames: %v", where, err)
	}
	if !vfEqNames(names, m.names()) {
		return vlib.Failf("dump-top-names", "%s: top-level buckets %q, model %q", where, names, m.names())
	}
	var walk func(path []string, b db.Bucket, mb *vfMB) *vlib.Failure
	walk = func(path []string, b db.Bucket, mb *vfMB) *vlib.Failure {
		ents, err := b.GetByPrefix(nil)
		if err != nil {
			return vlib.Failf("dump-error", "%s: %q GetByPrefix: %v", where, path, err)
		}
		want := mb.prefix(nil)
		if len(ents) != len(want) {
			return vlib.Failf("dump-kv", "%s: bucket %q holds %d pairs, model %d (store=%s model=%s)", where, path, len(ents), len(want), vfFmtEnts(ents), vfFmtPairs(want))
		}
		for i := range ents {
			if !bytes.Equal(ents[i].Key, want[i][0]) || !bytes.Equal(ents[i].Value, want[i][1]) {
				return vlib.Failf("dump-kv", "%s: bucket %q pair %d = (%q,%q), model (%q,%q)", where, path, i, ents[i].Key, ents[i].Value, want[i][0], want[i][1])
			}
			v, err := b.Get(ents[i].Key)
			if err != nil || !bytes.Equal(v, want[i][1]) {
				return vlib.Failf("dump-get", "%s: bucket %q Get(%q)=(%q,%v), model %q", where, path, ents[i].Key, v, err, want[i][1])
			}
		}
		sn, err := b.BucketNames()
		if err != nil {
			return vlib.Failf("dump-error", "%s: %q BucketNames: %v", where, path, err)
		}
		if !vfEqNames(sn, mb.names()) {
			return vlib.Failf("dump-sub-names", "%s: bucket %q sub-buckets %q, model %q", where, path, sn, mb.names())
		}
		for _, n := range sn {
			sb := b.Bucket(n)
			if sb == nil {
				return vlib.Failf("dump-sub-missing", "%s: bucket %q lists sub-bucket %q but Bucket() returns nil", where, path, n)
			}
			if f := walk(append(append([]string(nil), path...), n), sb, mb.subs[n]); f != nil {
				return f
			}
		}
		return nil
	}
	for _, n := range names {
		b := tx.TopLevelBucket(n)
		if b == nil {
			return vlib.Failf("dump-sub-missing", "%s: top-level %q listed but not returned", where, n)
		}
		if f := walk([]string{n}, b, m.subs[n]); f != nil {
			return f
		}
	}
	return nil
}

func vfFmtEnts(e []*db.Entry) string {
	var s []string
	for _, x := range e {
		s = append(s, fmt.Sprintf("%q=%q", x.Key, x.Value))
	}
	return "[" + strings.Join(s, " ") + "]"
}

func vfFmtPairs(e [][2][]byte) string {
	var s []string
	for _, x := range e {
		s = append(s, fmt.Sprintf("%q=%q", x[0], x[1]))
	}
	return "[" + strings.Join(s, " ") + "]"
}

// vfOpen opens the store through the repository's own constructor. That constructor requests a 64 MiB write
// buffer, which goleveldb allocates anew for every transaction; for speed most opens then replace the inner
// goleveldb handle by one opened with a small buffer (same directory, same *LevelDB value, so every field the
// constructor initialises is kept and all bucket/transaction code is the repository's); every 6th open keeps the
// original handle.
var vfOpens int

func vfOpen(path string, create bool) (db.DB, error) {
	vfOpens++
	var d db.DB
	var err error
	if create {
		d, err = CreateDB(path)
	} else {
		d, err = OpenDB(path)
	}
	if err != nil || vfOpens%6 == 0 {
		return d, err
	}
	l, ok := d.(*LevelDB)
	if !ok || l.LDb == nil {
		return d, nil
	}
	if err := l.LDb.Close(); err != nil {
		return nil, err
	}
	h, err := leveldb.OpenFile(path, &opt.Options{WriteBuffer: 1 << 20, BlockCacheCapacity: 1 << 20, ErrorIfMissing: true})
	if err != nil {
		return nil, err
	}
	l.LDb = h
	return l, nil
}

func vfC19Run(p vfProg, c *vlib.Ctx) *vlib.Failure {
	dir, err := os.MkdirTemp("", "vfc19")
	if err != nil {
		panic(err)
	}
	defer os.RemoveAll(dir)
	path := dir + "/store"
	store, err := vfOpen(path, true)
	if err != nil {
		return vlib.Failf("create-failed", "CreateDB: %v", err)
	}
	defer func() { store.Close() }()

	committed := vfNewMB()
	sawPrefixSiblings, sawDeleteOrClear, sawImitation, sawReopen, sawRollback := false, false, false, false, false

	for ti, txn := range p.Txns {
		where := fmt.Sprintf("tx#%d", ti)
		kept := map[string]db.Bucket{}
		if txn.KeepHandles {
			c.Label("handles-kept")
		}
		shadow := committed.clone()
		var tx vfTxLike
		var wtx db.DBTransaction
		var rtx db.ReadTransaction
		if txn.Write {
			wtx, err = store.BeginTx()
			if err != nil {
				return vlib.Failf("begin-failed", "%s BeginTx: %v", where, err)
			}
			tx = wtx
		} else {
			rtx, err = store.BeginReadTx()
			if err != nil {
				return vlib.Failf("begin-failed", "%s BeginReadTx: %v", where, err)
			}
			tx = rtx
		}
		fail := func(f *vlib.Failure) *vlib.Failure {
			if wtx != nil {
				wtx.Rollback()
			}
			return f
		}
		for oi, op := range txn.Ops {
			w := fmt.Sprintf("%s op#%d %s path=%q name=%q key=%q", where, oi, op.K, op.Path, op.Name, op.Key)
			switch op.K {
			case "createTop":
				_, err := wtx.CreateTopLevelBucket(op.Name)
				if !vfValidName(op.Name) {
					if err != db.ErrInvalidBucketName {
						return fail(vlib.Failf("err-mismatch:createTop", "%s: err=%v, want ErrInvalidBucketName", w, err))
					}
					break
				}
				if err != nil {
					return fail(vlib.Failf("err-mismatch:createTop", "%s: unexpected err=%v", w, err))
				}
				if _, ok := shadow.subs[op.Name]; !ok {
					shadow.subs[op.Name] = vfNewMB()
				}
			case "mkpath":
				if !txn.Write {
					break
				}
				b, err := db.GetOrCreateTopLevelBucket(wtx, op.Path[0])
				if err != nil {
					return fail(vlib.Failf("err-mismatch:mkpath", "%s: top: %v", w, err))
				}
				mb := shadow.subs[op.Path[0]]
				if mb == nil {
					mb = vfNewMB()
					shadow.subs[op.Path[0]] = mb
				}
				for _, n := range op.Path[1:] {
					b, err = db.GetOrCreateBucket(b, n)
					if err != nil || b == nil {
						return fail(vlib.Failf("err-mismatch:mkpath", "%s: sub %q: %v", w, n, err))
					}
					if mb.subs[n] == nil {
						mb.subs[n] = vfNewMB()
					}
					mb = mb.subs[n]
				}
			default:
				var b db.Bucket
				var mb *vfMB
				if op.K != "topNames" {
					if txn.KeepHandles {
						b = vfResolveKept(tx, op.Path, kept)
					} else {
						b = vfResolve(tx, op.Path)
					}
					mb = shadow.resolve(op.Path)
					if (b == nil) != (mb == nil) {
						return fail(vlib.Failf("resolve-mismatch", "%s: store bucket present=%v, model present=%v", w, b != nil, mb != nil))
					}
					if b == nil {
						c.Label("op-on-missing-bucket")
						continue
					}
					if got := b.GetBucketMeta(); got.Depth() != len(op.Path) || got.Name() != op.Path[len(op.Path)-1] {
						return fail(vlib.Failf("meta-mismatch", "%s: meta depth=%d name=%q", w, got.Depth(), got.Name()))
					}
					if fb := tx.(interface {
						FetchBucket(db.BucketMeta) db.Bucket
					}).FetchBucket(b.GetBucketMeta()); fb == nil {
						return fail(vlib.Failf("fetch-mismatch", "%s: FetchBucket(meta) of an existing bucket is nil", w))
					}
				}
				switch op.K {
				case "newBucket":
					_, err := b.NewBucket(op.Name)
					switch {
					case !txn.Write:
						if err != db.ErrNotSupported {
							return fail(vlib.Failf("err-mismatch:read-tx-write", "%s: err=%v in a read transaction", w, err))
						}
					case !vfValidName(op.Name):
						if err != db.ErrInvalidBucketName {
							return fail(vlib.Failf("err-mismatch:newBucket", "%s: err=%v, want ErrInvalidBucketName", w, err))
						}
					case mb.subs[op.Name] != nil:
						if err != db.ErrBucketExist {
							return fail(vlib.Failf("err-mismatch:newBucket", "%s: err=%v, want ErrBucketExist", w, err))
						}
					default:
						if err != nil {
							return fail(vlib.Failf("err-mismatch:newBucket", "%s: unexpected err=%v", w, err))
						}
						mb.subs[op.Name] = vfNewMB()
						for sib := range mb.subs {
							if sib != op.Name && (strings.HasPrefix(sib, op.Name) || strings.HasPrefix(op.Name, sib)) {
								sawPrefixSiblings = true
							}
						}
					}
				case "deleteBucket":
					err := b.DeleteBucket(op.Name)
					if !txn.Write {
						if err != db.ErrNotSupported {
							return fail(vlib.Failf("err-mismatch:read-tx-write", "%s: err=%v in a read transaction", w, err))
						}
						break
					}
					if err != nil {
						return fail(vlib.Failf("err-mismatch:deleteBucket", "%s: unexpected err=%v", w, err))
					}
					vfDropKept(kept, append(append([]string(nil), op.Path...), op.Name))
					if vfValidName(op.Name) && mb.subs[op.Name] != nil {
						delete(mb.subs, op.Name)
						sawDeleteOrClear = true
					}
				case "put":
					err := b.Put(op.Key, op.Val)
					switch {
					case !txn.Write:
						if err != db.ErrNotSupported {
							return fail(vlib.Failf("err-mismatch:read-tx-write", "%s: err=%v in a read transaction", w, err))
						}
					case len(op.Val) == 0:
						if err != db.ErrIllegalValue {
							return fail(vlib.Failf("err-mismatch:put", "%s: err=%v, want ErrIllegalValue", w, err))
						}
					case len(op.Key) == 0:
						if err != db.ErrIllegalKey {
							return fail(vlib.Failf("err-mismatch:put", "%s: err=%v, want ErrIllegalKey", w, err))
						}
					default:
						if err != nil {
							return fail(vlib.Failf("err-mismatch:put", "%s: unexpected err=%v", w, err))
						}
						mb.kv[string(op.Key)] = append([]byte(nil), op.Val...)
						if bytes.Contains(op.Key, []byte("_")) {
							sawImitation = true
						}
					}
				case "get":
					v, err := b.Get(op.Key)
					if err != nil {
						return fail(vlib.Failf("err-mismatch:get", "%s: unexpected err=%v", w, err))
					}
					want := mb.kv[string(op.Key)]
					if !bytes.Equal(v, want) || (v == nil) != (want == nil) {
						return fail(vlib.Failf("get-mismatch", "%s: got %q, model %q", w, v, want))
					}
				case "delete":
					err := b.Delete(op.Key)
					if !txn.Write {
						if err != db.ErrNotSupported {
							return fail(vlib.Failf("err-mismatch:read-tx-write", "%s: err=%v in a read transaction", w, err))
						}
						break
					}
					if err != nil {
						return fail(vlib.Failf("err-mismatch:delete", "%s: unexpected err=%v", w, err))
					}
					delete(mb.kv, string(op.Key))
				case "clear":
					err := b.Clear()
					if !txn.Write {
						if err != db.ErrNotSupported {
							return fail(vlib.Failf("err-mismatch:read-tx-write", "%s: err=%v in a read transaction", w, err))
						}
						break
					}
					if err != nil {
						return fail(vlib.Failf("err-mismatch:clear", "%s: unexpected err=%v", w, err))
					}
					if len(mb.kv) > 0 {
						sawDeleteOrClear = true
					}
					mb.kv = map[string][]byte{}
				case "prefix":
					ents, err := b.GetByPrefix(op.Key)
					if err != nil {
						return fail(vlib.Failf("err-mismatch:prefix", "%s: unexpected err=%v", w, err))
					}
					want := mb.prefix(op.Key)
					ok := len(ents) == len(want)
					for i := 0; ok && i < len(ents); i++ {
						ok = bytes.Equal(ents[i].Key, want[i][0]) && bytes.Equal(ents[i].Value, want[i][1])
					}
					if !ok {
						return fail(vlib.Failf("prefix-mismatch", "%s: store %s, model %s", w, vfFmtEnts(ents), vfFmtPairs(want)))
					}
				case "names":
					n, err := b.BucketNames()
					if err != nil || !vfEqNames(n, mb.names()) {
						return fail(vlib.Failf("names-mismatch", "%s: store %q err=%v, model %q", w, n, err, mb.names()))
					}
				case "topNames":
					n, err := tx.BucketNames()
					if err != nil || !vfEqNames(n, shadow.names()) {
						return fail(vlib.Failf("names-mismatch", "%s: store %q err=%v, model %q", w, n, err, shadow.names()))
					}
				}
			}
		}
		// read-your-writes: the whole shadow must be visible inside the transaction
		if f := vfDump(tx, shadow, where+" inside-tx"); f != nil {
			return fail(f)
		}
		if txn.Write {
			if txn.Commit {
				if err := wtx.Commit(); err != nil {
					return vlib.Failf("commit-failed", "%s Commit: %v", where, err)
				}
				committed = shadow
			} else {
				sawRollback = true
				if err := wtx.Rollback(); err != nil {
					return vlib.Failf("rollback-failed", "%s Rollback: %v", where, err)
				}
			}
			wtx = nil
		} else {
			rtx.Rollback()
		}
		if txn.Reopen {
			sawReopen = true
			if err := store.Close(); err != nil {
				return vlib.Failf("close-failed", "%s Close: %v", where, err)
			}
			store, err = vfOpen(path, false)
			if err != nil {
				return vlib.Failf("reopen-failed", "%s OpenDB: %v", where, err)
			}
		}
		if err := db.View(store, func(r db.ReadTransaction) error {
			if f := vfDump(r, committed, where+" after-end"); f != nil {
				return f
			}
			return nil
		}); err != nil {
			if f, ok := err.(*vlib.Failure); ok {
				return f
			}
			return vlib.Failf("view-failed", "%s: %v", where, err)
		}
	}
	if sawReopen {
		c.Label("reopen")
	}
	if sawRollback {
		c.Label("rollback")
	}
	if sawPrefixSiblings {
		c.Label("prefix-siblings")
	}
	if sawImitation {
		c.Label("imitation-key")
	}
	if sawDeleteOrClear {
		c.Label("delete-or-clear-nonempty")
	}
	if (sawPrefixSiblings && sawDeleteOrClear) || sawImitation {
		c.NonTrivial()
	}
	return nil
}

var vfC19Spec = vlib.Spec[vfProg]{
	Prop: "C19", Name: "store-vs-model",
	Rule: "programs of 1-8 read/write transactions (1-14 ops each, commit/rollback, optional reopen) over nested buckets with adversarial names/keys; in a third of the transactions bucket handles are kept and reused (also as parents of deeper lookups); half of the bucket deletions are followed in the same transaction by a bucket of the same name and a put; non-trivial = (sibling buckets sharing a name prefix AND a delete-bucket/clear of non-empty content) OR a key imitating the internal layout (contains the separator); distinct = distinct program JSON",
	Gen:  vfGenProg, Run: vfC19Run,
}

func TestVerif_C19(t *testing.T) { vlib.Both(t, vfC19Spec) }
