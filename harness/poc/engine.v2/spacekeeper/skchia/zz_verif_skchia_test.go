package skchia

// C09 / C13 on the chia-plot space keeper (engine.v2): the same statements as for the v1 keeper, instantiated on
// the keeper whose spaces are always plotted (only ready and mining are reachable). The chia plot backend is
// replaced, through the exported backend registry, by a scripted one (an empty *.plot file per space).
//
//   skchia-lifecycle  (C09): generated histories of keeper start/stop, single and bulk actions, queries and a
//                     "stop everything while the keeper starts" step, against a reference of the documented
//                     transitions; the plotter goroutine is not gated here (no hooks in this package), its effect
//                     (spaces configured to mine become mining after start) is awaited and compared.
//   skchia-concurrent (C13): concurrent callers around start/stop cycles; every call returns, Stop() returns,
//                     nothing panics, goroutines return to the baseline.

import (
	"bytes"
	"context"
	"errors"
	"fmt"
	"os"
	"path/filepath"
	"runtime"
	"sort"
	"strings"
	"sync"
	"sync/atomic"
	"testing"
	"time"

	"github.com/massnetorg/mass-core/logging"
	"github.com/massnetorg/mass-core/poc/chiapos"
	"github.com/massnetorg/mass-core/poc/pocutil"
	"massnet.org/mass/config"
	engine "massnet.org/mass/poc/engine.v2"
	"massnet.org/mass/poc/engine.v2/massdb"

	"pgregory.net/rapid"
	"verif/vlib"
)

var vfOnce sync.Once

func vfSetup() {
	vfOnce.Do(func() {
		base := os.Getenv("TMPDIR")
		if base == "" {
			base = os.TempDir()
		}
		d := filepath.Join(base, fmt.Sprintf("vfskchialog-%d", os.Getpid()))
		os.MkdirAll(d, 0o755)
		logging.Init(d, "vf.log", "error", 0, true)
	})
}

var (
	vfKeyMu sync.Mutex
	vfPk    = map[int]*chiapos.G1Element{}
)

func vfKey(i int) *chiapos.G1Element {
	vfKeyMu.Lock()
	defer vfKeyMu.Unlock()
	if k, ok := vfPk[i]; ok {
		return k
	}
	seed := bytes.Repeat([]byte{byte(i + 1), byte(i>>8) + 7}, 16)
	sk, err := chiapos.NewAugSchemeMPL().KeyGen(seed)
	if err != nil {
		panic(err)
	}
	pk, _ := sk.GetG1()
	vfPk[i] = pk
	return pk
}

// ---- scripted chia plot backend ---------------------------------------------------------------------------------

type vfChiaDB struct {
	file   string
	info   *chiapos.PlotInfo
	id     [32]byte
	qcalls int32
	closed int32
}

func (d *vfChiaDB) Type() string                { return typeMassDBChiaPoS }
func (d *vfChiaDB) Close() error                { atomic.StoreInt32(&d.closed, 1); return nil }
func (d *vfChiaDB) Ready() bool                 { return true }
func (d *vfChiaDB) BitLength() int              { return 32 }
func (d *vfChiaDB) ID() [32]byte                { return d.id }
func (d *vfChiaDB) PlotInfo() *chiapos.PlotInfo { return d.info }
func (d *vfChiaDB) GetQualities(challenge pocutil.Hash) ([][]byte, error) {
	atomic.AddInt32(&d.qcalls, 1)
	return [][]byte{{1, 2, 3}}, nil
}
func (d *vfChiaDB) GetProof(challenge pocutil.Hash, index uint32) (*chiapos.ProofOfSpace, error) {
	return nil, errors.New("scripted backend has no proofs")
}

type vfChiaEnv struct {
	mu  sync.Mutex
	dbs map[string]*vfChiaDB // by file name
}

var vfBackendMu sync.Mutex

func vfInstallChia(env *vfChiaEnv) func() {
	vfBackendMu.Lock()
	idx := -1
	for i, b := range massdb.DBBackendList {
		if b.Typ == typeMassDBChiaPoS {
			idx = i
		}
	}
	if idx < 0 {
		massdb.DBBackendList = append(massdb.DBBackendList, massdb.DBBackend{Typ: typeMassDBChiaPoS})
		idx = len(massdb.DBBackendList) - 1
	}
	old := massdb.DBBackendList[idx]
	massdb.DBBackendList[idx].OpenDB = func(args ...interface{}) (massdb.MassDB, error) {
		file, ok := args[0].(string)
		if !ok {
			return nil, massdb.ErrInvalidDBArgs
		}
		var i int
		if _, err := fmt.Sscanf(strings.ToLower(filepath.Base(file)), "vf-%d.plot", &i); err != nil {
			return nil, massdb.ErrDBCorrupted
		}
		d := &vfChiaDB{file: file, info: &chiapos.PlotInfo{PoolPublicKey: vfKey(2 * i), PlotPublicKey: vfKey(2*i + 1), FarmerPublicKey: vfKey(2 * i)}}
		d.id[0], d.id[1] = byte(i), byte(i>>8)
		env.mu.Lock()
		env.dbs[file] = d
		env.mu.Unlock()
		return d, nil
	}
	return func() {
		massdb.DBBackendList[idx] = old
		vfBackendMu.Unlock()
	}
}

func vfNewChiaKeeper(n int, execMine bool) (*SpaceKeeper, *vfChiaEnv, string, func(), error) {
	dir, err := os.MkdirTemp("", "vfskchia")
	if err != nil {
		return nil, nil, "", nil, err
	}
	for i := 0; i < n; i++ {
		if err := os.WriteFile(filepath.Join(dir, fmt.Sprintf("vf-%d.plot", i)), nil, 0o644); err != nil {
			return nil, nil, "", nil, err
		}
	}
	env := &vfChiaEnv{dbs: map[string]*vfChiaDB{}}
	restore := vfInstallChia(env)
	cfg := &config.Config{Miner: config.DefaultMiner()}
	cfg.Miner.ProofDir = []string{dir}
	cfg.Miner.Plot = false
	cfg.Miner.Generate = execMine
	ski, err := NewSpaceKeeperChiaPoS(cfg)
	if err != nil {
		restore()
		os.RemoveAll(dir)
		return nil, nil, "", nil, err
	}
	sk := ski.(*SpaceKeeper)
	cleanup := func() {
		if sk.Started() {
			sk.Stop()
		}
		sk.workerPool.Release()
		restore()
		os.RemoveAll(dir)
	}
	return sk, env, dir, cleanup, nil
}

func vfQueueSize(sk *SpaceKeeper) int {
	sk.queue.Lock()
	defer sk.queue.Unlock()
	return sk.queue.Prque.Size()
}

func vfAction(k string) engine.ActionType {
	switch k {
	case "plot":
		return engine.Plot
	case "mine":
		return engine.Mine
	case "stop":
		return engine.Stop
	case "remove":
		return engine.Remove
	}
	return engine.Delete
}

func vfCallT(f func() error, d time.Duration) (err error, blocked bool) {
	ch := make(chan error, 1)
	go func() { ch <- f() }()
	select {
	case err = <-ch:
		return err, false
	case <-time.After(d):
		return nil, true
	}
}

func vfKeeperStacks() string {
	buf := make([]byte, 1<<18)
	buf = buf[:runtime.Stack(buf, true)]
	var keep []string
	for _, g := range strings.Split(string(buf), "\n\n") {
		if strings.Contains(g, "spacekeeper/skchia.(*SpaceKeeper)") || strings.Contains(g, "spacekeeper/skchia.(*plotterQueue)") {
			keep = append(keep, g)
		}
	}
	return strings.Join(keep, "\n\n")
}

// ---- lifecycle histories (C09) ------------------------------------------------------------------------------

type vfLStep struct {
	K     string `json:"k"` // startKeeper | stopKeeper | plot | mine | stop | remove | delete | bulk:<action> | qualities | reconfig | startAndStopAll
	S     int    `json:"s"`
	Flags int    `json:"flags"`
	Mine  bool   `json:"mine,omitempty"`
	G     int    `json:"g,omitempty"`     // startAndStopAll: number of concurrent stoppers
	Procs int    `json:"procs,omitempty"` // startAndStopAll: GOMAXPROCS while it runs (0 = unchanged)
}

type vfLCase struct {
	Repeat   int       `json:"repeat,omitempty"` // saved regression cases of schedule-dependent failures: run the history this many times
	N        int       `json:"n"`
	ExecMine bool      `json:"execMine"`
	Steps    []vfLStep `json:"steps"`
}

func vfGenL(t *rapid.T) vfLCase {
	c := vfLCase{N: rapid.IntRange(1, 5).Draw(t, "n"), ExecMine: rapid.Bool().Draw(t, "execMine")}
	big := rapid.IntRange(0, 3).Draw(t, "big") == 0
	if big {
		c.N = rapid.IntRange(16, 48).Draw(t, "bigN")
		c.ExecMine = true
	}
	kinds := []string{"startKeeper", "startKeeper", "stopKeeper", "plot", "mine", "mine", "mine", "stop", "stop", "remove", "delete", "bulk:mine", "bulk:stop", "bulk:remove", "bulk:plot", "qualities", "qualities", "reconfig"}
	n := rapid.IntRange(1, 12).Draw(t, "steps")
	for i := 0; i < n; i++ {
		st := vfLStep{K: rapid.SampledFrom(kinds).Draw(t, "k"), S: rapid.IntRange(0, c.N-1).Draw(t, "s"), Flags: rapid.IntRange(1, 15).Draw(t, "flags"), Mine: rapid.Bool().Draw(t, "mineFlag")}
		if i == 0 && !big && rapid.Bool().Draw(t, "startFirst") {
			st.K = "startKeeper" // most queries need a running keeper
		}
		c.Steps = append(c.Steps, st)
		if (strings.HasPrefix(st.K, "bulk:") || st.K == "mine" || st.K == "stop") && rapid.Bool().Draw(t, "askAfter") {
			// what the miner is offered is asked again right after a change of the mining set
			c.Steps = append(c.Steps, vfLStep{K: "qualities"})
		}
		if big && i == 0 {
			// the interesting schedule for many spaces: everything is stopped while the freshly started plotter works
			// through the spaces that were configured to mine
			c.Steps[0] = vfLStep{K: "startAndStopAll", Flags: rapid.IntRange(0, 3).Draw(t, "early"), G: rapid.IntRange(2, 8).Draw(t, "g"), Procs: rapid.SampledFrom([]int{0, 1, 2, 2, 3, 4}).Draw(t, "procs")}
		}
	}
	return c
}

type vfLModel struct {
	state   map[string]engine.WorkSpaceState
	using   map[string]bool
	deleted map[string]bool
	pending map[string]bool // configured to mine: applied by the plotter once the keeper runs
}

func vfLRun(c vfLCase, ctx *vlib.Ctx) *vlib.Failure {
	for i := 1; i < c.Repeat; i++ {
		if f := vfLRunOnce(c, ctx); f != nil {
			return f
		}
	}
	return vfLRunOnce(c, ctx)
}

func vfLRunOnce(c vfLCase, ctx *vlib.Ctx) *vlib.Failure {
	vfSetup()
	sk, env, _, cleanup, err := vfNewChiaKeeper(c.N, c.ExecMine)
	if err != nil {
		return vlib.Failf("harness:keeper", "%v", err)
	}
	defer cleanup()
	m := &vfLModel{state: map[string]engine.WorkSpaceState{}, using: map[string]bool{}, deleted: map[string]bool{}, pending: map[string]bool{}}
	infos, _ := sk.WorkSpaceInfos(engine.SFAll)
	if len(infos) != c.N {
		return vlib.Failf("harness:index", "%d spaces indexed, want %d", len(infos), c.N)
	}
	var sids []string
	dbOf := map[string]*vfChiaDB{}
	for _, in := range infos {
		sids = append(sids, in.SpaceID)
		m.state[in.SpaceID] = engine.Ready
		m.using[in.SpaceID] = true
		m.pending[in.SpaceID] = c.ExecMine
	}
	sort.Strings(sids)
	env.mu.Lock()
	for _, d := range env.dbs {
		dbOf[NewSpaceID(d.info, 32).String()] = d
	}
	env.mu.Unlock()
	started := false
	interesting := false

	// compare waits for the plotter to have applied what the model expects (a space that must stay as it is, is
	// checked after the plotter went idle), then compares everything
	compare := func(where string) *vlib.Failure {
		deadline := time.Now().Add(5 * time.Second)
		for {
			settled := true
			sk.stateLock.RLock()
			for _, sid := range sids {
				if ws, ok := sk.workSpaceIndex[allState].Get(sid); ok && ws.state != m.state[sid] {
					settled = false
				}
			}
			sk.stateLock.RUnlock()
			if started && vfQueueSize(sk) > 0 {
				settled = false
			}
			if settled || time.Now().After(deadline) {
				break
			}
			time.Sleep(200 * time.Microsecond)
		}
		if started {
			time.Sleep(300 * time.Microsecond) // an item popped just before: let the plotter finish its step
		}
		sk.stateLock.RLock()
		defer sk.stateLock.RUnlock()
		for _, sid := range sids {
			ws, ok := sk.workSpaceIndex[allState].Get(sid)
			if m.deleted[sid] {
				if ok {
					return vlib.Failf("deleted-space-still-indexed", "%s: %s", where, sid)
				}
				continue
			}
			if !ok {
				return vlib.Failf("inv:space-vanished", "%s: %s is no longer indexed", where, sid)
			}
			in := 0
			for st := engine.FirstState; st <= engine.LastState; st++ {
				if _, ok := sk.workSpaceIndex[st].Get(sid); ok {
					in++
					if st != ws.state {
						return vlib.Failf("inv:index-state-mismatch", "%s: %s is in the %v index but its state is %v", where, sid, st, ws.state)
					}
				}
			}
			if in != 1 {
				return vlib.Failf("inv:not-exactly-one-state", "%s: %s is in %d per-state indexes", where, sid, in)
			}
			if ws.using != m.using[sid] {
				return vlib.Failf("using-flag-differs", "%s: %s using=%v, reference %v", where, sid, ws.using, m.using[sid])
			}
			if ws.state != m.state[sid] {
				if ws.state == engine.Mining && m.state[sid] == engine.Ready {
					return vlib.Failf("stopped-space-mined", "%s: %s is mining although its last request was a stop (or it was never asked to mine)\n%s", where, sid, vfKeeperStacks())
				}
				if ws.state == engine.Ready && m.state[sid] == engine.Mining {
					return vlib.Failf("mine-request-not-served", "%s: %s is still ready 5 s after it was asked to mine (keeper started=%v, queue size %d)\n%s", where, sid, started, vfQueueSize(sk), vfKeeperStacks())
				}
				return vlib.Failf("undocumented-transition", "%s: %s is %v, reference %v", where, sid, ws.state, m.state[sid])
			}
		}
		return nil
	}
	flagsAgree := func(where string) *vlib.Failure {
		all, _ := sk.WorkSpaceIDs(engine.SFAll)
		union := map[string]int{}
		for f := 1; f <= 15; f++ {
			ids, _ := sk.WorkSpaceIDs(engine.WorkSpaceStateFlags(f))
			infos, _ := sk.WorkSpaceInfos(engine.WorkSpaceStateFlags(f))
			if len(ids) != len(infos) {
				return vlib.Failf("inv:ids-infos-disagree", "%s: flags %d: %d ids, %d infos", where, f, len(ids), len(infos))
			}
			seen := map[string]bool{}
			for _, in := range infos {
				seen[in.SpaceID] = true
				if !engine.WorkSpaceStateFlags(f).Contains(in.State.Flag()) {
					return vlib.Failf("inv:flag-filter-wrong", "%s: flags %d returned %s in state %v", where, f, in.SpaceID, in.State)
				}
				if in.State != m.state[in.SpaceID] || !m.using[in.SpaceID] {
					return vlib.Failf("query-differs-from-reference", "%s: flags %d lists %s as %v, reference %v using=%v", where, f, in.SpaceID, in.State, m.state[in.SpaceID], m.using[in.SpaceID])
				}
			}
			for _, id := range ids {
				if !seen[id] {
					return vlib.Failf("inv:ids-infos-disagree", "%s: flags %d: id %s without info", where, f, id)
				}
			}
			if f == 1 || f == 2 || f == 4 || f == 8 {
				for _, id := range ids {
					union[id]++
				}
			}
		}
		nUsing := 0
		for _, sid := range sids {
			if m.using[sid] {
				nUsing++
			}
		}
		if len(all) != nUsing || len(union) != nUsing {
			return vlib.Failf("inv:flags-do-not-partition", "%s: SFAll lists %d, single-state queries cover %d, reference has %d spaces in use", where, len(all), len(union), nUsing)
		}
		for id, n := range union {
			if n != 1 {
				return vlib.Failf("inv:flags-do-not-partition", "%s: %s is returned by %d single-state queries", where, id, n)
			}
		}
		return nil
	}
	apply := func(kind, sid string) string { // reference of one action; returns the expected error class
		if !m.using[sid] {
			return "noexist"
		}
		switch kind {
		case "plot":
			return "ok"
		case "mine":
			m.state[sid] = engine.Mining
			return "ok"
		case "stop":
			m.state[sid] = engine.Ready
			m.pending[sid] = false
			return "ok"
		case "remove", "delete":
			m.pending[sid] = false
			if m.state[sid] != engine.Ready {
				return "notstill"
			}
			m.using[sid] = false
			if kind == "delete" {
				m.deleted[sid] = true
			}
			return "ok"
		}
		return "?"
	}
	class := func(err error) string {
		switch err {
		case nil:
			return "ok"
		case ErrWorkSpaceDoesNotExist:
			return "noexist"
		case ErrWorkSpaceIsNotStill:
			return "notstill"
		}
		return "other:" + err.Error()
	}
	startKeeper := func(where string) *vlib.Failure {
		err, blocked := vfCallT(sk.Start, 20*time.Second)
		if blocked {
			return vlib.Failf("keeper-start-blocked", "%s\n%s", where, vfKeeperStacks())
		}
		if err != nil {
			return vlib.Failf("start-failed", "%s: %v", where, err)
		}
		started = true
		return nil
	}
	applyPending := func() {
		for _, sid := range sids {
			if m.pending[sid] && m.using[sid] && m.state[sid] == engine.Ready {
				m.state[sid] = engine.Mining
			}
			m.pending[sid] = false
		}
	}

	for si, st := range c.Steps {
		where := fmt.Sprintf("step#%d %s", si, st.K)
		sid := sids[st.S%len(sids)]
		switch {
		case st.K == "startKeeper":
			if !started {
				if f := startKeeper(where); f != nil {
					return f
				}
				applyPending()
			}
		case st.K == "startAndStopAll":
			if started {
				continue
			}
			// Start() and, as soon as it has returned, G callers stop every space in use; afterwards every space
			// was stopped after it had been configured to mine, so none may be mining
			var targets []string
			for _, s := range sids {
				if m.using[s] {
					targets = append(targets, s)
				}
			}
			if st.Procs > 0 {
				// few processors for many goroutines: the plotter is descheduled between its steps more often
				defer runtime.GOMAXPROCS(runtime.GOMAXPROCS(st.Procs))
			}
			// Every space is stopped exactly once (a later stop would repair what an earlier lost one left behind),
			// in the order in which the plotter will pop them, so that stopper and plotter race for each space in
			// turn; G-1 further callers only query (read lock) to keep the state lock contended. The callers are
			// released just before Start() is called or right after it returned.
			sk.stateLock.RLock()
			prio := map[string]float32{}
			for _, s := range targets {
				if ws, ok := sk.workSpaceIndex[allState].Get(s); ok {
					prio[s] = newQueuedWorkSpace(ws, true).priority()
				}
			}
			sk.stateLock.RUnlock()
			order := append([]string(nil), targets...)
			sort.Slice(order, func(a, b int) bool { return prio[order[a]] > prio[order[b]] })
			var wg sync.WaitGroup
			var bad atomic.Value
			var goFlag, stopDone int32
			wg.Add(1)
			go func() {
				defer wg.Done()
				defer atomic.StoreInt32(&stopDone, 1)
				defer func() {
					if r := recover(); r != nil {
						bad.Store(fmt.Sprintf("panic in StopWS: %v", r))
					}
				}()
				for atomic.LoadInt32(&goFlag) == 0 {
				}
				for _, s := range order {
					if err := sk.ActOnWorkSpace(s, engine.Stop); err != nil {
						bad.Store(fmt.Sprintf("stop(%s): %v", s, err))
					}
				}
			}()
			for g := 1; g < st.G; g++ {
				wg.Add(1)
				go func(g int) {
					defer wg.Done()
					for atomic.LoadInt32(&goFlag) == 0 {
					}
					for atomic.LoadInt32(&stopDone) == 0 {
						if g%2 == 0 {
							sk.WorkSpaceIDs(engine.SFMining)
						} else {
							sk.WorkSpaceInfos(engine.SFReady)
						}
					}
				}(g)
			}
			if st.Flags%2 == 0 {
				atomic.StoreInt32(&goFlag, 1)
			}
			if f := startKeeper(where); f != nil {
				atomic.StoreInt32(&goFlag, 1)
				return f
			}
			atomic.StoreInt32(&goFlag, 1)
			done := make(chan struct{})
			go func() { wg.Wait(); close(done) }()
			select {
			case <-done:
			case <-time.After(20 * time.Second):
				return vlib.Failf("api-calls-blocked", "%s: concurrent stops did not return\n%s", where, vfKeeperStacks())
			}
			if v := bad.Load(); v != nil {
				return vlib.Failf("action-refused", "%s: %v", where, v)
			}
			// stops issued by the callers may have been overtaken by their own later... no: every caller only stops.
			for _, s := range targets {
				m.state[s] = engine.Ready
				m.pending[s] = false
			}
			ctx.Label("start-and-stop-all")
			interesting = true
		case st.K == "stopKeeper":
			if started {
				err, blocked := vfCallT(sk.Stop, 20*time.Second)
				if blocked {
					return vlib.Failf("keeper-stop-blocked", "%s: SpaceKeeper.Stop() did not return\n%s", where, vfKeeperStacks())
				}
				if err != nil {
					return vlib.Failf("stop-failed", "%s: %v", where, err)
				}
				started = false
			}
		case st.K == "reconfig":
			if started {
				continue
			}
			flags := engine.WorkSpaceStateFlags(st.Flags)
			res, err := sk.ConfigureByFlags(flags, false, st.Mine)
			sel := map[string]bool{}
			for _, s := range sids {
				if !m.deleted[s] && flags.Contains(m.state[s].Flag()) {
					sel[s] = true
				}
			}
			if len(sel) == 0 {
				if err != ErrSpaceKeeperConfiguredNothing {
					return vlib.Failf("reconfig-result", "%s: flags %d select nothing, got %v", where, st.Flags, err)
				}
				continue
			}
			if err != nil || len(res) != len(sel) {
				return vlib.Failf("reconfig-result", "%s: flags %d: %d spaces, err %v, want %d", where, st.Flags, len(res), err, len(sel))
			}
			for _, s := range sids {
				if m.deleted[s] {
					continue
				}
				m.using[s] = sel[s]
				m.pending[s] = sel[s] && st.Mine
			}
			ctx.Label("reconfigured")
		case st.K == "qualities":
			before := map[string]int32{}
			for s, d := range dbOf {
				before[s] = atomic.LoadInt32(&d.qcalls)
			}
			_, err := sk.GetQualities(context.Background(), engine.SFMining, pocutil.Hash{1})
			if !started {
				if err != ErrSpaceKeeperIsNotRunning {
					return vlib.Failf("qualities-while-stopped", "%s: %v", where, err)
				}
				continue
			}
			if err != nil {
				return vlib.Failf("getqualities-failed", "%s: %v", where, err)
			}
			for s, d := range dbOf {
				asked := atomic.LoadInt32(&d.qcalls) > before[s]
				mining := m.state[s] == engine.Mining && m.using[s]
				if asked != mining {
					return vlib.Failf("qualities-asked-from-non-mining-space", "%s: space %s asked=%v, mining=%v", where, s, asked, mining)
				}
			}
		case strings.HasPrefix(st.K, "bulk:"):
			kind := strings.TrimPrefix(st.K, "bulk:")
			flags := engine.WorkSpaceStateFlags(st.Flags)
			var targets []string
			for _, s := range sids {
				if m.using[s] && flags.Contains(m.state[s].Flag()) {
					targets = append(targets, s)
				}
			}
			errs, err := sk.ActOnWorkSpaces(flags, vfAction(kind))
			if err != nil {
				return vlib.Failf("bulk-failed", "%s: %v", where, err)
			}
			if len(errs) != len(targets) {
				return vlib.Failf("bulk-target-set", "%s: flags %d: results for %d spaces, reference %d", where, st.Flags, len(errs), len(targets))
			}
			for _, s := range targets {
				e, ok := errs[s]
				if !ok {
					return vlib.Failf("bulk-target-set", "%s: no result for %s", where, s)
				}
				if want := apply(kind, s); class(e) != want {
					return vlib.Failf("action-result", "%s: %s(%s) = %v, reference %s", where, kind, s, e, want)
				}
			}
			if len(targets) >= 2 {
				interesting = true
			}
		default:
			err, blocked := vfCallT(func() error { return sk.ActOnWorkSpace(sid, vfAction(st.K)) }, 20*time.Second)
			if blocked {
				return vlib.Failf("api-call-blocked", "%s: %s(%s) did not return\n%s", where, st.K, sid, vfKeeperStacks())
			}
			if want := apply(st.K, sid); class(err) != want {
				return vlib.Failf("action-result", "%s: %s(%s) = %v, reference %s", where, st.K, sid, err, want)
			}
		}
		if f := compare(where); f != nil {
			return f
		}
		if f := flagsAgree(where); f != nil {
			return f
		}
	}
	if started {
		err, blocked := vfCallT(sk.Stop, 20*time.Second)
		if blocked {
			return vlib.Failf("keeper-stop-blocked", "final SpaceKeeper.Stop() did not return\n%s", vfKeeperStacks())
		}
		_ = err
		started = false
		if f := compare("after the final keeper stop"); f != nil {
			return f
		}
	}
	if interesting || (c.ExecMine && len(c.Steps) >= 3) {
		ctx.NonTrivial()
	}
	return nil
}

var vfLSpec = vlib.Spec[vfLCase]{
	Prop: "C09", Name: "skchia-lifecycle", NoShrink: true, Scale: 0.05, Min: 16,
	Rule: "chia-plot keeper on a scripted plot backend, 1-5 (or 16-48) spaces, configured to mine or not; histories of 1-12 steps from {keeper start/stop, plot, mine, stop, remove, delete, bulk actions by flags, GetQualities(mining), re-configuration by flags, start the keeper and stop every space from 2-8 callers at once}; oracle after every step (after the plotter went idle): exactly one per-state index per space, states, using flags and action results equal the reference of the documented transitions (a stopped space is not mined until asked again), the 15 flag queries agree and partition the spaces in use, only mining spaces are asked for qualities; non-trivial = start-and-stop-all, a bulk action on >=2 spaces, or a mine-configured keeper with >=3 steps; distinct = distinct case JSON",
	Gen:  vfGenL, Run: vfLRun,
}

func TestVerif_C09(t *testing.T) { vlib.Both(t, vfLSpec) }

// ---- concurrent callers (C13) -----------------------------------------------------------------------------------

type vfCOp struct {
	K     string `json:"k"`
	S     int    `json:"s"`
	Flags int    `json:"flags"`
}

type vfCCase struct {
	Repeat   int       `json:"repeat,omitempty"` // saved regression cases of schedule-dependent failures: run the program this many times
	N        int       `json:"n"`
	ExecMine bool      `json:"execMine"`
	Callers  [][]vfCOp `json:"callers"`
	Cycles   int       `json:"cycles"` // keeper stop/start cycles while the callers run
}

func vfGenC(t *rapid.T) vfCCase {
	c := vfCCase{N: rapid.IntRange(1, 24).Draw(t, "n"), ExecMine: rapid.Bool().Draw(t, "execMine"), Cycles: rapid.IntRange(0, 3).Draw(t, "cycles")}
	kinds := []string{"plot", "mine", "mine", "stop", "stop", "stop", "remove", "delete", "ids", "infos", "qualities", "bulk:mine", "bulk:stop", "bulk:plot", "qreader", "qreader1", "preader", "flood:qreaders", "flood:preaders"}
	nc := rapid.IntRange(2, 6).Draw(t, "callers")
	floods := 0
	for i := 0; i < nc; i++ {
		var ops []vfCOp
		for j, n := 0, rapid.IntRange(1, 12).Draw(t, "ops"); j < n; j++ {
			op := vfCOp{K: rapid.SampledFrom(kinds).Draw(t, "k"), S: rapid.IntRange(0, c.N-1).Draw(t, "s"), Flags: rapid.IntRange(1, 15).Draw(t, "flags")}
			if strings.HasPrefix(op.K, "flood:") {
				if floods > 0 {
					op.K = "qreader" // one flood per program is enough (each is 33-160 requests over all spaces)
				}
				floods++
			}
			ops = append(ops, op)
		}
		c.Callers = append(c.Callers, ops)
	}
	return c
}

// vfWithCtx runs a reader request under a context that ends when the request is over (the reader's watcher
// goroutine lives as long as its context)
func vfWithCtx(f func(context.Context)) {
	cx, cancel := context.WithCancel(context.Background())
	defer cancel()
	f(cx)
}

func vfDrainQ(r engine.QualityReader, err error) {
	if err != nil || r == nil {
		return
	}
	for {
		if _, err := r.Read(); err != nil {
			return
		}
	}
}

func vfDrainP(r engine.ProofReader, err error) {
	if err != nil || r == nil {
		return
	}
	for {
		if _, err := r.Read(); err != nil {
			return
		}
	}
}

func vfCRun(c vfCCase, ctx *vlib.Ctx) *vlib.Failure {
	for i := 1; i < c.Repeat; i++ {
		if f := vfCRunOnce(c, ctx); f != nil {
			return f
		}
	}
	return vfCRunOnce(c, ctx)
}

func vfCRunOnce(c vfCCase, ctx *vlib.Ctx) *vlib.Failure {
	vfSetup()
	baseline := runtime.NumGoroutine()
	sk, _, _, cleanup, err := vfNewChiaKeeper(c.N, c.ExecMine)
	if err != nil {
		return vlib.Failf("harness:keeper", "%v", err)
	}
	defer cleanup()
	ids, _ := sk.WorkSpaceIDs(engine.SFAll)
	sort.Strings(ids)
	if len(ids) != c.N {
		return vlib.Failf("harness:index", "%d spaces", len(ids))
	}
	var fmu sync.Mutex
	var fail *vlib.Failure
	setFail := func(f *vlib.Failure) {
		fmu.Lock()
		if fail == nil {
			fail = f
		}
		fmu.Unlock()
	}
	var goFlag, floods int32
	var wg sync.WaitGroup
	for ci, ops := range c.Callers {
		wg.Add(1)
		go func(ci int, ops []vfCOp) {
			defer wg.Done()
			defer func() {
				if r := recover(); r != nil {
					buf := make([]byte, 8192)
					buf = buf[:runtime.Stack(buf, false)]
					setFail(vlib.RepoPanicSig(r, buf))
				}
			}()
			for atomic.LoadInt32(&goFlag) == 0 {
				runtime.Gosched()
			}
			for _, op := range ops {
				sid := ids[op.S%len(ids)]
				switch {
				case op.K == "ids":
					sk.WorkSpaceIDs(engine.WorkSpaceStateFlags(op.Flags))
				case op.K == "infos":
					sk.WorkSpaceInfos(engine.WorkSpaceStateFlags(op.Flags))
				case op.K == "qualities":
					sk.GetQualities(context.Background(), engine.SFMining, pocutil.Hash{2})
				case op.K == "qreader":
					vfWithCtx(func(cx context.Context) {
						vfDrainQ(sk.GetQualitiesReader(cx, engine.WorkSpaceStateFlags(op.Flags), pocutil.Hash{3}))
					})
				case op.K == "qreader1":
					vfWithCtx(func(cx context.Context) { vfDrainQ(sk.GetQualityReader(cx, sid, pocutil.Hash{4})) })
				case op.K == "preader":
					vfWithCtx(func(cx context.Context) {
						vfDrainP(sk.GetProofsReader(cx, ids, pocutil.Hash{5}, make([]uint32, len(ids))))
					})
				case strings.HasPrefix(op.K, "flood:"):
					// many reader requests in flight at once (every block asks all spaces; a pool or the API may be hit
					// by many clients): 33..160, around and above the keeper's worker pool size
					n := 33 + (op.Flags*17+op.S*5)%128
					var fw sync.WaitGroup
					for i := 0; i < n; i++ {
						fw.Add(1)
						go func() {
							defer fw.Done()
							vfWithCtx(func(cx context.Context) {
								if op.K == "flood:qreaders" {
									vfDrainQ(sk.GetQualitiesReader(cx, engine.SFAll, pocutil.Hash{6}))
								} else {
									vfDrainP(sk.GetProofsReader(cx, ids, pocutil.Hash{7}, make([]uint32, len(ids))))
								}
							})
						}()
					}
					fw.Wait()
					atomic.AddInt32(&floods, 1)
				case strings.HasPrefix(op.K, "bulk:"):
					sk.ActOnWorkSpaces(engine.WorkSpaceStateFlags(op.Flags), vfAction(strings.TrimPrefix(op.K, "bulk:")))
				default:
					sk.ActOnWorkSpace(sid, vfAction(op.K))
				}
			}
		}(ci, ops)
	}
	if err := sk.Start(); err != nil {
		return vlib.Failf("start-failed", "%v", err)
	}
	atomic.StoreInt32(&goFlag, 1)
	for cy := 0; cy < c.Cycles; cy++ {
		err, blocked := vfCallT(sk.Stop, 20*time.Second)
		if blocked {
			return vlib.Failf("keeper-stop-blocked", "cycle %d: SpaceKeeper.Stop() did not return\n%s", cy, vfKeeperStacks())
		}
		if err != nil {
			return vlib.Failf("stop-failed", "cycle %d: %v", cy, err)
		}
		if err, blocked := vfCallT(sk.Start, 20*time.Second); blocked || err != nil {
			return vlib.Failf("start-failed", "cycle %d: %v blocked=%v\n%s", cy, err, blocked, vfKeeperStacks())
		}
	}
	done := make(chan struct{})
	go func() { wg.Wait(); close(done) }()
	select {
	case <-done:
	case <-time.After(20 * time.Second):
		return vlib.Failf("api-calls-blocked", "callers did not return\n%s", vfKeeperStacks())
	}
	fmu.Lock()
	f := fail
	fmu.Unlock()
	if f != nil {
		return f
	}
	if err, blocked := vfCallT(sk.Stop, 20*time.Second); blocked {
		return vlib.Failf("keeper-stop-blocked", "final SpaceKeeper.Stop() did not return\n%s", vfKeeperStacks())
	} else if err != nil {
		return vlib.Failf("stop-failed", "final: %v", err)
	}
	deadline := time.Now().Add(5 * time.Second)
	for runtime.NumGoroutine() > baseline+2 && time.Now().Before(deadline) {
		time.Sleep(time.Millisecond)
	}
	if n := runtime.NumGoroutine(); n > baseline+2 {
		buf := make([]byte, 1<<19)
		buf = buf[:runtime.Stack(buf, true)]
		listed := strings.Count("\n\n"+string(buf), "\n\ngoroutine ")
		if listed <= baseline+2 {
			// counted a moment ago, gone in the dump: idle pool workers on their way out
			ctx.Label("goroutines-exiting-at-deadline")
		} else {
			return vlib.Failf("goroutines-leaked", "%d goroutines after Stop (%d in the dump), %d before the case:\n%s", n, listed, baseline, buf)
		}
	}
	ctx.LabelN("callers", len(c.Callers))
	ctx.LabelN("reader-floods", int(floods))
	if len(c.Callers) >= 2 && (c.ExecMine || c.Cycles > 0 || floods > 0) {
		ctx.NonTrivial()
	}
	return nil
}

var vfCSpec = vlib.Spec[vfCCase]{
	Prop: "C13", Name: "skchia-concurrent", NoShrink: true, Scale: 0.4, Min: 16,
	Rule: "chia-plot keeper on a scripted plot backend with 1-24 spaces (configured to mine or not), 2-6 concurrent callers with 1-12 operations each from {plot, mine, stop, remove, delete, queries, GetQualities, bulk actions, quality/proof readers drained to EOF, floods of 33-160 simultaneous reader requests}, released when Start() has returned, 0-3 keeper stop/start cycles meanwhile; oracle: every call and every Stop()/Start() returns, nothing panics (recover in the callers, process death otherwise), goroutines return to the baseline; non-trivial = >=2 callers with a mine-configured keeper, a stop/start cycle or a reader flood; distinct = distinct case JSON",
	Gen:  vfGenC, Run: vfCRun,
}

func TestVerif_C13(t *testing.T) { vlib.Both(t, vfCSpec) }
