package engine

// C13 (proof and quality hand-over of engine.v2) — ProofRW and QualityRW are the channels through which the chia
// keeper's bare goroutines hand results to a requester whose context may end at any moment. Generated
// programs run writers, readers and a cancellation that lands at a generated point of the writers' progress.
// Oracle: no panic (a panic in the keeper's writer goroutine kills the node), every call returns, a write either
// succeeds or reports ErrProofIOTimeout, every successful write is read exactly once before EOF, nothing else is.

import (
	"context"
	"fmt"
	"io"
	"runtime"
	"sort"
	"strings"
	"sync"
	"sync/atomic"
	"testing"
	"time"

	"pgregory.net/rapid"
	"verif/vlib"
)

type vfPRWCase struct {
	Quality   bool `json:"quality"` // QualityRW instead of ProofRW
	Buf       int  `json:"buf"`
	Writers   int  `json:"writers"`
	PerWriter int  `json:"perWriter"`
	Readers   int  `json:"readers"`
	CancelAt  int  `json:"cancelAt"`  // the context ends once this many writes have been attempted (<0: only at the end)
	Spin      int  `json:"spin"`      // extra busy iterations between reaching CancelAt and cancelling
	CloseToo  bool `json:"closeToo"`  // the writers' owner also calls Close() when they are done (as the keeper does)
	YieldMask int  `json:"yieldMask"` // writers yield before writes whose index has a bit in common with the mask
}

func vfPRWGen(t *rapid.T) vfPRWCase {
	c := vfPRWCase{
		Quality:   rapid.Bool().Draw(t, "quality"),
		Writers:   rapid.IntRange(1, 4).Draw(t, "writers"),
		PerWriter: rapid.SampledFrom([]int{1, 2, 3, 8, 32, 96}).Draw(t, "perWriter"),
		Readers:   rapid.IntRange(0, 2).Draw(t, "readers"),
		CloseToo:  rapid.Bool().Draw(t, "closeToo"),
		YieldMask: rapid.SampledFrom([]int{0, 0, 1, 3, 5}).Draw(t, "yieldMask"),
	}
	total := c.Writers * c.PerWriter
	if c.Readers == 0 {
		c.Buf = total // the keeper sizes the buffer to the number of proofs it will write; nobody needs to read
	} else {
		c.Buf = rapid.SampledFrom([]int{1, 2, total, total + 1}).Draw(t, "buf")
	}
	switch rapid.IntRange(0, 5).Draw(t, "cancelKind") {
	case 0:
		c.CancelAt = -1
	case 1:
		c.CancelAt = 0
	default:
		c.CancelAt = rapid.IntRange(0, total).Draw(t, "cancelAt")
	}
	c.Spin = rapid.SampledFrom([]int{0, 0, 1, 7, 40, 200, 1000}).Draw(t, "spin")
	return c
}

var vfPRWSink uint64

// vfRW hides which of the two hand-over types is under test; items are identified by their space id
type vfRW struct {
	write func(id string) error
	read  func() (string, bool, error) // id, ok(false at EOF), unexpected error
	close func()
}

func vfNewRW(ctx context.Context, quality bool, buf int) *vfRW {
	if quality {
		q := NewQualityRW(ctx, buf)
		return &vfRW{
			write: func(id string) error { return q.Write(&WorkSpaceQuality{SpaceID: id}) },
			read: func() (string, bool, error) {
				x, err := q.Read()
				if err == io.EOF {
					return "", false, nil
				}
				if err != nil || x == nil {
					return "", false, fmt.Errorf("Read returned %v, %v", x, err)
				}
				return x.SpaceID, true, nil
			},
			close: q.Close,
		}
	}
	p := NewProofRW(ctx, buf)
	return &vfRW{
		write: func(id string) error { return p.Write(&WorkSpaceProof{SpaceID: id}) },
		read: func() (string, bool, error) {
			x, err := p.Read()
			if err == io.EOF {
				return "", false, nil
			}
			if err != nil || x == nil {
				return "", false, fmt.Errorf("Read returned %v, %v", x, err)
			}
			return x.SpaceID, true, nil
		},
		close: p.Close,
	}
}

func vfPRWStacks(all string) string {
	var keep []string
	for _, g := range strings.Split(all, "\n\n") {
		if strings.Contains(g, "poc/engine%2ev2.(*ProofRW)") || strings.Contains(g, "poc/engine%2ev2.(*QualityRW)") || strings.Contains(g, "engine.v2.(*") {
			keep = append(keep, g)
		}
	}
	return strings.Join(keep, "\n\n")
}

func vfPRWRun(c vfPRWCase, x *vlib.Ctx) *vlib.Failure {
	ctx, cancel := context.WithCancel(context.Background())
	defer cancel()
	prw := vfNewRW(ctx, c.Quality, c.Buf)
	total := c.Writers * c.PerWriter
	var attempted int64
	okWrites := make([]int32, total)  // 1: Write returned nil
	errWrites := make([]int32, total) // 1: Write returned ErrProofIOTimeout
	items := make([]string, total)
	for i := range items {
		items[i] = fmt.Sprintf("w%d", i)
	}
	var fmu sync.Mutex
	var fail *vlib.Failure
	setFail := func(f *vlib.Failure) {
		fmu.Lock()
		if fail == nil {
			fail = f
		}
		fmu.Unlock()
	}
	var wwg, rwg sync.WaitGroup
	for w := 0; w < c.Writers; w++ {
		wwg.Add(1)
		go func(w int) {
			defer wwg.Done()
			defer func() {
				if r := recover(); r != nil {
					setFail(vlib.Failf("proofrw-write-panic", "engine.v2 Write panicked: %v (in the keeper this goroutine is bare: the node dies)", r))
				}
			}()
			for k := 0; k < c.PerWriter; k++ {
				i := w*c.PerWriter + k
				if c.YieldMask&(k+1) != 0 {
					runtime.Gosched()
				}
				atomic.AddInt64(&attempted, 1)
				err := prw.write(items[i])
				switch err {
				case nil:
					atomic.StoreInt32(&okWrites[i], 1)
				case ErrProofIOTimeout, ErrQualityIOTimeout:
					atomic.StoreInt32(&errWrites[i], 1)
				default:
					setFail(vlib.Failf("proofrw-write-error", "Write returned %v", err))
				}
			}
		}(w)
	}
	// canceller
	cdone := make(chan struct{})
	go func() {
		defer close(cdone)
		if c.CancelAt < 0 {
			return
		}
		for atomic.LoadInt64(&attempted) < int64(c.CancelAt) {
			runtime.Gosched()
		}
		var s uint64
		for k := 0; k < c.Spin; k++ {
			s += uint64(k)
		}
		atomic.AddUint64(&vfPRWSink, s)
		cancel()
	}()
	// readers drain until EOF
	var rmu sync.Mutex
	got := map[string]int{}
	for r := 0; r < c.Readers; r++ {
		rwg.Add(1)
		go func() {
			defer rwg.Done()
			for {
				p, ok, err := prw.read()
				if err != nil {
					setFail(vlib.Failf("proofrw-read-error", "%v", err))
					return
				}
				if !ok {
					return
				}
				rmu.Lock()
				got[p]++
				rmu.Unlock()
			}
		}()
	}
	wait := func(wg *sync.WaitGroup, what string) *vlib.Failure {
		ch := make(chan struct{})
		go func() { wg.Wait(); close(ch) }()
		select {
		case <-ch:
			return nil
		case <-time.After(20 * time.Second):
			buf := make([]byte, 1<<16)
			n := runtime.Stack(buf, true)
			return vlib.Failf("proofrw-blocked", "%s did not finish although the buffer is large enough or a reader drains it\n%s", what, vfPRWStacks(string(buf[:n])))
		}
	}
	if f := wait(&wwg, "writers"); f != nil {
		cancel()
		return f
	}
	<-cdone
	if c.CloseToo {
		prw.close()
	}
	cancel() // the request ends at the latest now; NewProofRW's watcher closes the channel
	// drain what no reader took
	done := make(chan struct{})
	var tail []string
	go func() {
		defer close(done)
		for {
			p, ok, err := prw.read()
			if err != nil || !ok {
				return
			}
			tail = append(tail, p)
		}
	}()
	select {
	case <-done:
	case <-time.After(20 * time.Second):
		return vlib.Failf("proofrw-no-eof", "the context is done and Close() was called=%v, but Read never reports EOF", c.CloseToo)
	}
	if f := wait(&rwg, "readers"); f != nil {
		return f
	}
	fmu.Lock()
	f := fail
	fmu.Unlock()
	if f != nil {
		return f
	}
	for _, p := range tail {
		got[p]++
	}
	if err := prw.write(items[0]); err != ErrProofIOTimeout && err != ErrQualityIOTimeout {
		return vlib.Failf("proofrw-write-after-close", "Write after the channel was closed returned %v", err)
	}
	nOK, nErr := 0, 0
	var bad []string
	for i := range items {
		ok, er := okWrites[i] == 1, errWrites[i] == 1
		if ok {
			nOK++
		}
		if er {
			nErr++
		}
		n := got[items[i]]
		switch {
		case ok && n != 1:
			bad = append(bad, fmt.Sprintf("%s: written successfully, read %d times", items[i], n))
		case !ok && n != 0:
			bad = append(bad, fmt.Sprintf("%s: write refused (%v), yet read %d times", items[i], er, n))
		case !ok && !er:
			bad = append(bad, fmt.Sprintf("%s: write neither succeeded nor was refused", items[i]))
		}
	}
	if len(bad) > 0 {
		sort.Strings(bad)
		return vlib.Failf("proofrw-lost-or-duplicated", "%v", bad)
	}
	if nOK > 0 && nErr > 0 {
		x.Label("cancel-landed-among-writes")
		x.NonTrivial()
	}
	if c.Readers > 0 && c.Buf < total {
		x.Label("writers-throttled-by-reader")
	}
	if nErr == total {
		x.Label("all-refused")
	}
	if nOK == total {
		x.Label("all-written")
	}
	return nil
}

var vfPRWSpec = vlib.Spec[vfPRWCase]{
	Prop: "C13", Name: "v2-rw-concurrent", Scale: 6, Min: 400, NoShrink: true,
	Rule: "1-4 writers with 1-96 writes each on one engine.v2 ProofRW or QualityRW whose buffer is sized as the keeper sizes it (or smaller with 1-2 draining readers), the request context cancelled after a generated number of attempted writes plus 0-1000 busy iterations, optional owner Close(); oracle: no panic, all return, Write is nil or ErrProofIOTimeout, successful writes are read exactly once before EOF and refused ones never; non-trivial = the cancellation landed among the writes (some succeeded, some were refused); distinct = distinct case JSON",
	Gen:  vfPRWGen,
	Run:  vfPRWRun,
}

func TestVerif_C13(t *testing.T) { vlib.Both(t, vfPRWSpec) }
