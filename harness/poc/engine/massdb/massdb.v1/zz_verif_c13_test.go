package massdb_v1

// C13 (plot DB part) — concurrent Plot/StopPlot/Close/Delete/Progress on one MassDBV1 while a plot is held at a
// named point (hook H2): every call returns, nothing panics.

import (
	"fmt"
	"os"
	"runtime"
	"sync"
	"testing"
	"time"

	"github.com/massnetorg/mass-core/poc/pocutil"

	"pgregory.net/rapid"
	"verif/vlib"
)

type vfDBConc struct {
	Scalar  []byte   `json:"scalar"`
	BL      int      `json:"bl"`
	HoldAt  string   `json:"holdAt"`
	Callers []string `json:"callers"` // stop | progress | delete | plot | ready | close
}

func vfDBConcRun(c vfDBConc, ctx *vlib.Ctx) *vlib.Failure {
	vfSetup()
	dir, err := os.MkdirTemp("", "vfc13db")
	if err != nil {
		panic(err)
	}
	defer os.RemoveAll(dir)
	pub := vfPub(c.Scalar)
	dbi, err := CreateDB(dir, int64(1), pub, c.BL)
	if err != nil {
		return vlib.Failf("create-failed", "%v", err)
	}
	mdb := dbi.(*MassDBV1)
	vfHookMu.Lock()
	defer vfHookMu.Unlock()
	reached := make(chan struct{})
	release := make(chan struct{})
	var once sync.Once
	VerifPoint = func(m *MassDBV1, name string, a, b pocutil.PoCValue) {
		if m == mdb && name == c.HoldAt {
			once.Do(func() {
				close(reached)
				<-release
			})
		}
	}
	defer func() { VerifPoint = nil }()
	plotRes := mdb.Plot()
	select {
	case <-reached:
	case <-time.After(20 * time.Second):
		close(release)
		return vlib.Failf("harness:hold-point-not-reached", "%s", c.HoldAt)
	}
	var wg sync.WaitGroup
	var mu sync.Mutex
	var fail *vlib.Failure
	results := make(chan string, len(c.Callers))
	start := make(chan struct{})
	for i, k := range c.Callers {
		wg.Add(1)
		go func(i int, k string) {
			defer wg.Done()
			defer func() {
				if r := recover(); r != nil {
					buf := make([]byte, 8192)
					buf = buf[:runtime.Stack(buf, false)]
					mu.Lock()
					if fail == nil {
						fail = vlib.RepoPanicSig(r, buf)
					}
					mu.Unlock()
				}
			}()
			<-start
			switch k {
			case "stop":
				<-mdb.StopPlot()
			case "progress":
				mdb.Progress()
			case "ready":
				mdb.Ready()
			case "delete":
				if err := <-mdb.Delete(); err == nil {
					mu.Lock()
					if fail == nil {
						fail = vlib.Failf("delete-accepted-while-plotting", "caller %d", i)
					}
					mu.Unlock()
				}
			case "plot":
				if err := <-mdb.Plot(); err != ErrAlreadyPlotting && err != nil {
					mu.Lock()
					if fail == nil {
						fail = vlib.Failf("second-plot-unexpected-result", "caller %d: %v", i, err)
					}
					mu.Unlock()
				}
			}
			results <- k
		}(i, k)
	}
	close(start)
	time.Sleep(time.Millisecond) // let the stoppers signal while the plot is still held
	close(release)
	done := make(chan struct{})
	go func() { wg.Wait(); close(done) }()
	select {
	case <-done:
	case <-time.After(30 * time.Second):
		buf := make([]byte, 1<<16)
		buf = buf[:runtime.Stack(buf, true)]
		return vlib.Failf("db-calls-blocked", "calls on the plot DB did not return after the held plot was released:\n%s", buf)
	}
	select {
	case <-plotRes:
	case <-time.After(60 * time.Second):
		return vlib.Failf("plot-result-never-delivered", "holdAt=%s", c.HoldAt)
	}
	mu.Lock()
	f := fail
	mu.Unlock()
	if f != nil {
		f.Sig = "plotdb-" + f.Sig
		return f
	}
	mdb.Close()
	stops := 0
	for _, k := range c.Callers {
		if k == "stop" {
			stops++
		}
	}
	ctx.Label(fmt.Sprintf("simultaneous-stops-%d", stops))
	if stops >= 2 {
		ctx.NonTrivial()
	}
	return nil
}

var vfDBConcSpec = vlib.Spec[vfDBConc]{
	Prop: "C13", Name: "plotdb-concurrent", NoShrink: true, Scale: 0.25,
	Rule: "a real massdb.v1 plot (bit length 8..10) is held at a generated named point of pass A or B (hook H2) while 2-6 goroutines call StopPlot (2-4 of them simultaneously), Progress, Ready, Delete, Plot; then the plot is released; oracle: every call returns, Delete is refused while plotting, a second Plot reports already plotting, no panic (a panic in a repository goroutine ends the process and is attributed by the driver); non-trivial = >=2 simultaneous StopPlot calls; distinct = distinct case JSON",
	Gen: func(t *rapid.T) vfDBConc {
		c := vfDBConc{Scalar: rapid.SliceOfN(rapid.Byte(), 1, 8).Draw(t, "scalar"), BL: rapid.IntRange(8, 10).Draw(t, "bl"),
			HoldAt: rapid.SampledFrom([]string{"A.iter", "A.window", "A.scanned", "A.dataSynced", "B.iter", "B.window", "B.scanned", "B.ckptSynced"}).Draw(t, "holdAt")}
		n := rapid.IntRange(2, 6).Draw(t, "callers")
		for i := 0; i < n; i++ {
			c.Callers = append(c.Callers, rapid.SampledFrom([]string{"stop", "stop", "stop", "progress", "ready", "delete", "plot"}).Draw(t, "caller"))
		}
		return c
	},
	Run: vfDBConcRun,
}

// ---- stop / plot again / stop again on one DB object -----------------------------------------------------------
//
// The keeper keeps one plot DB object per space for its whole life: plot, stop, plot again, stop again all go to the
// same object. Every stop has to take effect: once StopPlot has signalled, the held plot must not run through the
// scan of the window it was about to start.

type vfStopRounds struct {
	Scalar []byte `json:"scalar"`
	BL     int    `json:"bl"`
	Rounds int    `json:"rounds"`
	Point  string `json:"point"` // A.window | B.window (right before a scan loop that polls the stop signal)
	CapA   int    `json:"capA"`  // window size of pass A in records (0 = one window)
}

func vfStopRoundsRun(c vfStopRounds, ctx *vlib.Ctx) *vlib.Failure {
	vfSetup()
	dir, err := os.MkdirTemp("", "vfc13rounds")
	if err != nil {
		panic(err)
	}
	defer os.RemoveAll(dir)
	pub := vfPub(c.Scalar)
	dbi, err := CreateDB(dir, int64(1), pub, c.BL)
	if err != nil {
		return vlib.Failf("create-failed", "%v", err)
	}
	mdb := dbi.(*MassDBV1)
	defer mdb.Close()
	vfHookMu.Lock()
	defer vfHookMu.Unlock()
	rs := uint64(pocutil.RecordSize(c.BL))
	VerifCacheCap = func(required uint64) uint64 {
		if c.CapA > 0 && uint64(c.CapA)*rs < required {
			return uint64(c.CapA) * rs
		}
		return required
	}
	defer func() { VerifCacheCap = nil; VerifPoint = nil }()
	for round := 1; round <= c.Rounds; round++ {
		if mdb.Ready() {
			ctx.Label("plotted-before-last-round")
			break
		}
		where := fmt.Sprintf("bl=%d round %d/%d hold at %s", c.BL, round, c.Rounds, c.Point)
		reached := make(chan struct{})
		release := make(chan struct{})
		var once sync.Once
		var mu sync.Mutex
		released := false
		scannedAfter := ""
		VerifPoint = func(m *MassDBV1, name string, a, b pocutil.PoCValue) {
			if m != mdb {
				return
			}
			if name == c.Point {
				once.Do(func() {
					close(reached)
					<-release
				})
				return
			}
			mu.Lock()
			if released && scannedAfter == "" && (name == "A.scanned" || name == "B.scanned") && name[:1] == c.Point[:1] {
				scannedAfter = fmt.Sprintf("%s [%d,%d)", name, a, b)
			}
			mu.Unlock()
		}
		plotRes := mdb.Plot()
		select {
		case <-reached:
		case err := <-plotRes:
			// the pass that contains the hold point is already complete: nothing to hold any more
			if err != nil {
				return vlib.Failf("plot:error", "%s: %v", where, err)
			}
			ctx.Label("hold-point-not-reached-any-more")
			continue
		case <-time.After(30 * time.Second):
			close(release)
			return vlib.Failf("harness:hold-point-not-reached", "%s", where)
		}
		ch := mdb.stopPlotCh
		stopRes := mdb.StopPlot()
		// the stop signal is a closed channel; give the signalling goroutine far more time than it can need
		signalled := false
		for i := 0; i < 100000 && !signalled; i++ {
			select {
			case <-ch:
				signalled = true
			default:
				time.Sleep(100 * time.Microsecond)
			}
		}
		mu.Lock()
		released = true
		mu.Unlock()
		close(release)
		select {
		case <-stopRes:
		case <-time.After(60 * time.Second):
			buf := make([]byte, 1<<16)
			buf = buf[:runtime.Stack(buf, true)]
			return vlib.Failf("db-calls-blocked", "%s: StopPlot did not return after the held plot was released:\n%s", where, buf)
		}
		select {
		case <-plotRes:
		case <-time.After(60 * time.Second):
			return vlib.Failf("plot-result-never-delivered", "%s", where)
		}
		mu.Lock()
		sa := scannedAfter
		mu.Unlock()
		if sa != "" {
			return vlib.Failf("stop-ignored", "%s: StopPlot was called while the plot was held right before a scan (stop signal visible to the plot: %v after 10 s), yet the plot went through the whole scan %s", where, signalled, sa)
		}
		if !signalled {
			return vlib.Failf("stop-ignored", "%s: StopPlot never signalled the running plot (the stop channel of this plot was not closed within 10 s)", where)
		}
		ctx.Label("round-stopped")
	}
	// finally the plot completes on the same object
	VerifPoint = nil
	if !mdb.Ready() {
		select {
		case err := <-mdb.Plot():
			if err != nil {
				return vlib.Failf("plot:error", "final plot: %v", err)
			}
		case <-time.After(120 * time.Second):
			return vlib.Failf("plot-result-never-delivered", "final plot")
		}
		mdb.wg.Wait()
	}
	if !mdb.Ready() {
		return vlib.Failf("resume:not-complete-after-uninterrupted-run", "bl=%d: not plotted after the final uninterrupted plot", c.BL)
	}
	if c.Rounds >= 2 {
		ctx.NonTrivial()
	}
	return nil
}

var vfStopRoundsSpec = vlib.Spec[vfStopRounds]{
	Prop: "C13", Name: "plotdb-stop-rounds", NoShrink: true, Scale: 0.1, Min: 16,
	Rule: "one real massdb.v1 plot object (bit length 8..11, pass A in one or several windows): 1-4 rounds of Plot(), hold right before the scan of a window of pass A or B (hook H2), StopPlot(), release; oracle: StopPlot signals the plot it was called for (closed stop channel), the plot does not run through the scan it was about to start, StopPlot and Plot return, and a final uninterrupted Plot() on the same object completes; non-trivial = >=2 rounds on one object; distinct = distinct case JSON",
	Gen: func(t *rapid.T) vfStopRounds {
		bl := rapid.IntRange(8, 11).Draw(t, "bl")
		return vfStopRounds{Scalar: rapid.SliceOfN(rapid.Byte(), 1, 8).Draw(t, "scalar"), BL: bl, Rounds: rapid.IntRange(1, 4).Draw(t, "rounds"),
			Point: rapid.SampledFrom([]string{"A.window", "A.window", "B.window"}).Draw(t, "point"),
			CapA:  rapid.SampledFrom([]int{0, 0, (1 << uint(bl)) / 3, (1<<uint(bl))/2 + 1}).Draw(t, "capA")}
	},
	Run: vfStopRoundsRun,
}

func TestVerif_C13(t *testing.T) {
	t.Run("concurrent", func(t *testing.T) { vlib.Both(t, vfDBConcSpec) })
	t.Run("stop-rounds", func(t *testing.T) { vlib.Both(t, vfStopRoundsSpec) })
}
