package massdb_v1

// C13 (plot DB part) — concurrent Plot/StopPlot/Close/Delete/Progress on one MassDBV1 while a plot is held at a
// named point (hook H2): every call returns, nothing panics.

import (
	"fmt"
	"os"
	"runtime"
	"sync"
	"testing"
	"time"

	"github.com/massnetorg/mass-core/poc/pocutil"

	"pgregory.net/rapid"
	"verif/vlib"
)

type vfDBConc struct {
	Scalar  []byte   `json:"scalar"`
	BL      int      `json:"bl"`
	HoldAt  string   `json:"holdAt"`
	Callers []string `json:"callers"` // stop | progress | delete | plot | ready | close
}

func vfDBConcRun(c vfDBConc, ctx *vlib.Ctx) *vlib.Failure {
	vfSetup()
	dir, err := os.MkdirTemp("", "vfc13db")
	if err != nil {
		panic(err)
	}
	defer os.RemoveAll(dir)
	pub := vfPub(c.Scalar)
	dbi, err := CreateDB(dir, int64(1), pub, c.BL)
	if err != nil {
		return vlib.Failf("create-failed", "%v", err)
	}
	mdb := dbi.(*MassDBV1)
	vfHookMu.Lock()
	defer vfHookMu.Unlock()
	reached := make(chan struct{})
	release := make(chan struct{})
	var once sync.Once
	VerifPoint = func(m *MassDBV1, name string, a, b pocutil.PoCValue) {
		if m == mdb && name == c.HoldAt {
			once.Do(func() {
				close(reached)
				<-release
			})
		}
	}
	defer func() { VerifPoint = nil }()
	plotRes := mdb.Plot()
	select {
	case <-reached:
	case <-time.After(20 * time.Second):
		close(release)
		return vlib.Failf("harness:hold-point-not-reached", "%s", c.HoldAt)
	}
	var wg sync.WaitGroup
	var mu sync.Mutex
	var fail *vlib.Failure
	results := make(chan string, len(c.Callers))
	start := make(chan struct{})
	for i, k := range c.Callers {
		wg.Add(1)
		go func(i int, k string) {
			defer wg.Done()
			defer func() {
				if r := recover(); r != nil {
					buf := make([]byte, 8192)
					buf = buf[:runtime.Stack(buf, false)]
					mu.Lock()
					if fail == nil {
						fail = vlib.RepoPanicSig(r, buf)
					}
					mu.Unlock()
				}
			}()
			<-start
			switch k {
			case "stop":
				<-mdb.StopPlot()
			case "progress":
				mdb.Progress()
			case "ready":
				mdb.Ready()
			case "delete":
				if err := <-mdb.Delete(); err == nil {
					mu.Lock()
					if fail == nil {
						fail = vlib.Failf("delete-accepted-while-plotting", "caller %d", i)
					}
					mu.Unlock()
				}
			case "plot":
				if err := <-mdb.Plot(); err != ErrAlreadyPlotting && err != nil {
					mu.Lock()
					if fail == nil {
						fail = vlib.Failf("second-plot-unexpected-result", "caller %d: %v", i, err)
					}
					mu.Unlock()
				}
			}
			results <- k
		}(i, k)
	}
	close(start)
	time.Sleep(time.Millisecond) // let the stoppers signal while the plot is still held
	close(release)
	done := make(chan struct{})
	go func() { wg.Wait(); close(done) }()
	select {
	case <-done:
	case <-time.After(30 * time.Second):
		buf := make([]byte, 1<<16)
		buf = buf[:runtime.Stack(buf, true)]
		return vlib.Failf("db-calls-blocked", "calls on the plot DB did not return after the held plot was released:\n%s", buf)
	}
	select {
	case <-plotRes:
	case <-time.After(60 * time.Second):
		return vlib.Failf("plot-result-never-delivered", "holdAt=%s", c.HoldAt)
	}
	mu.Lock()
	f := fail
	mu.Unlock()
	if f != nil {
		f.Sig = "plotdb-" + f.Sig
		return f
	}
	mdb.Close()
	stops := 0
	for _, k := range c.Callers {
		if k == "stop" {
			stops++
		}
	}
	ctx.Label(fmt.Sprintf("simultaneous-stops-%d", stops))
	if stops >= 2 {
		ctx.NonTrivial()
	}
	return nil
}

var vfDBConcSpec = vlib.Spec[vfDBConc]{
	Prop: "C13", Name: "plotdb-concurrent", NoShrink: true, Scale: 0.25,
	Rule: "a real massdb.v1 plot (bit length 8..10) is held at a generated named point of pass A or B (hook H2) while 2-6 goroutines call StopPlot (2-4 of them simultaneously), Progress, Ready, Delete, Plot; then the plot is released; oracle: every call returns, Delete is refused while plotting, a second Plot reports already plotting, no panic (a panic in a repository goroutine ends the process and is attributed by the driver); non-trivial = >=2 simultaneous StopPlot calls; distinct = distinct case JSON",
	Gen: func(t *rapid.T) vfDBConc {
		c := vfDBConc{Scalar: rapid.SliceOfN(rapid.Byte(), 1, 8).Draw(t, "scalar"), BL: rapid.IntRange(8, 10).Draw(t, "bl"),
			HoldAt: rapid.SampledFrom([]string{"A.iter", "A.window", "A.scanned", "A.dataSynced", "B.iter", "B.window", "B.scanned", "B.ckptSynced"}).Draw(t, "holdAt")}
		n := rapid.IntRange(2, 6).Draw(t, "callers")
		for i := 0; i < n; i++ {
			c.Callers = append(c.Callers, rapid.SampledFrom([]string{"stop", "stop", "stop", "progress", "ready", "delete", "plot"}).Draw(t, "caller"))
		}
		return c
	},
	Run: vfDBConcRun,
}

func TestVerif_C13(t *testing.T) { vlib.Both(t, vfDBConcSpec) }
