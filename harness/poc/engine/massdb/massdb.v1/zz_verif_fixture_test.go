package massdb_v1

// Generator of the C08 fixture (DESIGN.md §4 C08): real BL=24 proofs of several keys that answer one common
// challenge prefix. Run on demand only (VERIF_GEN_FIXTURE=<output file>): plots BL=24 spaces with the real code
// (about 25 s each), intersects the tables and writes {scalar, x, x'} per key. The consumer re-verifies every
// proof with the chain library on every load, so the file is never trusted.

import (
	"encoding/hex"
	"encoding/json"
	"os"
	"testing"

	"github.com/massnetorg/mass-core/poc/pocutil"
)

type vfFixtureProof struct {
	Scalar string `json:"scalar"` // hex of the private scalar bytes fed to vfPub
	X      uint64 `json:"x"`
	XP     uint64 `json:"xp"`
}

type vfFixture struct {
	BL     int              `json:"bl"`
	Z      uint64           `json:"z"` // common challenge prefix (low BL bits of the challenge)
	Proofs []vfFixtureProof `json:"proofs"`
}

func TestVerifGen_C08Fixture(t *testing.T) {
	out := os.Getenv("VERIF_GEN_FIXTURE")
	if out == "" {
		t.Skip("fixture generation not requested")
	}
	vfSetup()
	const bl = 24
	const nkeys = 6
	vol := uint64(1) << bl
	type tab struct {
		scalar []byte
		path   string
	}
	var tabs []tab
	dir, err := os.MkdirTemp("", "vffix")
	if err != nil {
		t.Fatal(err)
	}
	defer os.RemoveAll(dir)
	for i := 0; i < nkeys; i++ {
		scalar := []byte{0xc8, byte(i + 1)}
		pub := vfPub(scalar)
		dbi, err := CreateDB(dir, int64(i), pub, bl)
		if err != nil {
			t.Fatal(err)
		}
		mdb := dbi.(*MassDBV1)
		if err := <-mdb.Plot(); err != nil {
			t.Fatal(err)
		}
		mdb.wg.Wait()
		tabs = append(tabs, tab{scalar, mdb.filePathB})
		mdb.Close()
		t.Logf("plotted key %d", i)
	}
	// occupancy per key
	raws := make([][]byte, nkeys)
	for i, tb := range tabs {
		raw, err := os.ReadFile(tb.path)
		if err != nil {
			t.Fatal(err)
		}
		raws[i] = raw[PosProofData:]
	}
	rs := pocutil.RecordSize(bl)
	entry := func(i int, z uint64) (uint64, uint64) {
		off := int(z) * rs * 2
		if off+2*rs > len(raws[i]) {
			return 0, 0
		}
		return vfLE(raws[i][off : off+rs]), vfLE(raws[i][off+rs : off+2*rs])
	}
	for z := uint64(1); z < vol; z++ {
		all := true
		for i := 0; i < nkeys && all; i++ {
			x, xp := entry(i, z)
			all = x != 0 && xp != 0
		}
		if !all {
			continue
		}
		fx := vfFixture{BL: bl, Z: z}
		for i, tb := range tabs {
			x, xp := entry(i, z)
			fx.Proofs = append(fx.Proofs, vfFixtureProof{Scalar: hex.EncodeToString(tb.scalar), X: x, XP: xp})
		}
		b, _ := json.MarshalIndent(fx, "", " ")
		if err := os.WriteFile(out, b, 0o644); err != nil {
			t.Fatal(err)
		}
		t.Logf("fixture written for z=%d", z)
		return
	}
	t.Fatal("no common challenge prefix found")
}
