package massdb_v1

// C10 part 2 — abrupt crashes (DESIGN.md §3.6). The test binary re-executes itself as a child under strace; the
// child plots one space at a small bit length with generated window caps. The kernel-level trace gives the true
// order of data writes, fsyncs, checkpoint writes and the unlink of map A. For EVERY prefix of that trace the
// possible post-crash images are constructed (everything up to each file's last fsync is durable; of the later
// writes: all / none / all-but-one / only-one / first half of the last one survive) and each image is re-opened,
// judged (plotted => complete; progress covered by final data) and resumed to completion with other window caps.
// Because fsyncs are observed at the kernel boundary, a dropped or reordered Sync() is visible.

import (
	"bytes"
	"encoding/hex"
	"encoding/json"
	"fmt"
	"os"
	"os/exec"
	"path/filepath"
	"regexp"
	"strconv"
	"strings"
	"testing"

	"github.com/massnetorg/mass-core/poc/pocutil"

	"pgregory.net/rapid"
	"verif/vlib"
)

type vfCrashCase struct {
	Scalar []byte    `json:"scalar"`
	BL     int       `json:"bl"`
	Plan   vfRunPlan `json:"plan"`   // caps of the traced (crashing) run
	Resume vfRunPlan `json:"resume"` // caps of the run after the crash
	// Only restricts the enumeration to one crash state (replay of a shrunk failure): prefix length and loss pattern
	OnlyPrefix  int    `json:"onlyPrefix,omitempty"`
	OnlyPattern string `json:"onlyPattern,omitempty"`
}

type vfChildCfg struct {
	Dir    string    `json:"dir"`
	Scalar []byte    `json:"scalar"`
	BL     int       `json:"bl"`
	Plan   vfRunPlan `json:"plan"`
}

// TestVerifChild_C10 is the traced child: it only runs when VERIF_C10_CHILD names a configuration file.
func TestVerifChild_C10(t *testing.T) {
	cfgPath := os.Getenv("VERIF_C10_CHILD")
	if cfgPath == "" {
		t.Skip("not a child")
	}
	b, err := os.ReadFile(cfgPath)
	if err != nil {
		t.Fatal(err)
	}
	var cfg vfChildCfg
	if err := json.Unmarshal(b, &cfg); err != nil {
		t.Fatal(err)
	}
	vfSetup()
	pub := vfPub(cfg.Scalar)
	dbi, err := CreateDB(cfg.Dir, int64(7), pub, cfg.BL)
	if err != nil {
		t.Fatal(err)
	}
	mdb := dbi.(*MassDBV1)
	res := vfPlot(mdb, cfg.Plan, nil, pocutil.PubKeyHash(pub))
	if res.plotErr != nil || res.nonAdvancing != "" {
		t.Fatalf("child plot: %v %s", res.plotErr, res.nonAdvancing)
	}
	mdb.Close()
}

type vfSysOp struct {
	Kind string // "w" write, "s" fsync, "u" unlink
	File string // base name
	Off  int64
	Data []byte
}

var vfTraceLine = regexp.MustCompile(`^(?:\d+\s+)?(\w+)\((.*)\)\s+=\s+(-?\d+)`)
var vfFdPath = regexp.MustCompile(`^(\d+)<([^>]*)>`)

func vfUnhex(s string) []byte {
	// strace -xx prints every byte as \xNN
	s = strings.ReplaceAll(s, `\x`, "")
	b, err := hex.DecodeString(s)
	if err != nil {
		return nil
	}
	return b
}

func vfParseTrace(path, dir string) ([]vfSysOp, error) {
	raw, err := os.ReadFile(path)
	if err != nil {
		return nil, err
	}
	var ops []vfSysOp
	pos := map[string]int64{} // file position for plain write()
	for _, ln := range strings.Split(string(raw), "\n") {
		if strings.Contains(ln, "unfinished") || strings.Contains(ln, "resumed") {
			if strings.Contains(ln, dir) || strings.Contains(ln, strings.ReplaceAll(fmt.Sprintf("%x", dir), "", "")) {
				return nil, fmt.Errorf("split trace line for a plot file: %.200s", ln)
			}
			continue
		}
		m := vfTraceLine.FindStringSubmatch(ln)
		if m == nil {
			continue
		}
		name, args, ret := m[1], m[2], m[3]
		if ret == "-1" || strings.HasPrefix(ret, "-") {
			continue
		}
		switch name {
		case "pwrite64", "write":
			fm := vfFdPath.FindStringSubmatch(args)
			if fm != nil && strings.Contains(fm[2], `\x`) {
				fm[2] = string(vfUnhex(fm[2])) // -xx escapes the fd path as well
			}
			if fm == nil || !strings.HasPrefix(fm[2], dir) {
				continue
			}
			q1 := strings.Index(args, `"`)
			q2 := strings.LastIndex(args, `"`)
			if q1 < 0 || q2 <= q1 {
				continue
			}
			if strings.HasPrefix(args[q2+1:], "...") {
				return nil, fmt.Errorf("truncated write data in trace")
			}
			data := vfUnhex(args[q1+1 : q2])
			rest := strings.Split(strings.TrimPrefix(strings.TrimPrefix(args[q2+1:], "..."), ", "), ", ")
			n, _ := strconv.Atoi(ret)
			if n < len(data) {
				data = data[:n]
			}
			file := filepath.Base(fm[2])
			var off int64
			if name == "pwrite64" && len(rest) >= 2 {
				off, _ = strconv.ParseInt(strings.TrimSpace(rest[1]), 10, 64)
			} else {
				off = pos[file]
				pos[file] += int64(len(data))
			}
			ops = append(ops, vfSysOp{Kind: "w", File: file, Off: off, Data: data})
		case "fsync", "fdatasync":
			fm := vfFdPath.FindStringSubmatch(args)
			if fm != nil && strings.Contains(fm[2], `\x`) {
				fm[2] = string(vfUnhex(fm[2]))
			}
			if fm == nil || !strings.HasPrefix(fm[2], dir) {
				continue
			}
			ops = append(ops, vfSysOp{Kind: "s", File: filepath.Base(fm[2])})
		case "unlinkat", "unlink":
			q1 := strings.Index(args, `"`)
			q2 := strings.LastIndex(args, `"`)
			if q1 < 0 || q2 <= q1 {
				continue
			}
			p := string(vfUnhex(args[q1+1 : q2]))
			if strings.HasPrefix(p, dir) {
				ops = append(ops, vfSysOp{Kind: "u", File: filepath.Base(p)})
			}
		}
	}
	return ops, nil
}

func vfApply(img map[string][]byte, op vfSysOp, half bool) {
	switch op.Kind {
	case "w":
		data := op.Data
		if half {
			data = data[:len(data)/2]
		}
		f := img[op.File]
		if need := int(op.Off) + len(data); need > len(f) {
			f = append(f, make([]byte, need-len(f))...)
		}
		copy(f[op.Off:], data)
		img[op.File] = f
	case "u":
		delete(img, op.File)
	}
}

type vfCrashState struct {
	prefix  int
	pattern string
	img     map[string][]byte
}

// vfCrashStates enumerates the post-crash images for one trace prefix.
func vfCrashStates(ops []vfSysOp, prefix int) []vfCrashState {
	// last fsync position per file within the prefix
	lastSync := map[string]int{}
	for i := 0; i < prefix; i++ {
		if ops[i].Kind == "s" {
			lastSync[ops[i].File] = i
		}
	}
	var unsynced []int
	for i := 0; i < prefix; i++ {
		if ops[i].Kind == "w" {
			if ls, ok := lastSync[ops[i].File]; !ok || i > ls {
				unsynced = append(unsynced, i)
			}
		}
	}
	build := func(keep func(i int) (bool, bool)) map[string][]byte {
		img := map[string][]byte{}
		for i := 0; i < prefix; i++ {
			op := ops[i]
			if op.Kind == "s" {
				continue
			}
			if op.Kind == "w" {
				isUns := false
				for _, u := range unsynced {
					if u == i {
						isUns = true
					}
				}
				if isUns {
					k, half := keep(i)
					if !k {
						continue
					}
					vfApply(img, op, half)
					continue
				}
			}
			vfApply(img, op, false)
		}
		return img
	}
	var out []vfCrashState
	out = append(out, vfCrashState{prefix, "all-unsynced-survive", build(func(int) (bool, bool) { return true, false })})
	if len(unsynced) > 0 {
		out = append(out, vfCrashState{prefix, "all-unsynced-lost", build(func(int) (bool, bool) { return false, false })})
		last := unsynced[len(unsynced)-1]
		out = append(out, vfCrashState{prefix, "last-write-torn", build(func(i int) (bool, bool) { return true, i == last })})
	}
	if len(unsynced) > 1 {
		for _, u := range unsynced {
			u := u
			out = append(out, vfCrashState{prefix, fmt.Sprintf("lost-only-#%d", u), build(func(i int) (bool, bool) { return i != u, false })})
			out = append(out, vfCrashState{prefix, fmt.Sprintf("survives-only-#%d", u), build(func(i int) (bool, bool) { return i == u, false })})
		}
	}
	return out
}

func vfCrashRun(c vfCrashCase, ctx *vlib.Ctx) *vlib.Failure {
	vfSetup()
	if _, err := exec.LookPath("strace"); err != nil {
		return vlib.Failf("harness:no-strace", "%v", err)
	}
	root, err := os.MkdirTemp("", "vfcrash")
	if err != nil {
		panic(err)
	}
	defer os.RemoveAll(root)
	plotDir := filepath.Join(root, "plot")
	os.MkdirAll(plotDir, 0o755)
	cfg := vfChildCfg{Dir: plotDir, Scalar: c.Scalar, BL: c.BL, Plan: c.Plan}
	cfgPath := filepath.Join(root, "child.json")
	cb, _ := json.Marshal(cfg)
	os.WriteFile(cfgPath, cb, 0o644)
	tracePath := filepath.Join(root, "trace.txt")
	cmd := exec.Command("strace", "-f", "-y", "-xx", "-s", "2000000", "-o", tracePath,
		"-e", "trace=pwrite64,write,fsync,fdatasync,unlinkat,unlink", os.Args[0], "-test.run", "^TestVerifChild_C10$", "-test.count=1")
	cmd.Env = append(os.Environ(), "VERIF_C10_CHILD="+cfgPath, "GOMAXPROCS=1", "VERIF_OUT=", "VERIF_INFLIGHT=", "VERIF_REPLAY=")
	cmd.Dir = root
	if out, err := cmd.CombinedOutput(); err != nil {
		return vlib.Failf("harness:child-failed", "%v\n%s", err, out)
	}
	ops, err := vfParseTrace(tracePath, plotDir)
	if err != nil {
		return vlib.Failf("harness:trace", "%v", err)
	}
	// Creation of the space (the two 4 KiB header writes of CreateDB) is taken as durable: the property is about
	// interrupted *plotting*; a space is created at configuration time. (CreateDB itself does not fsync; a power
	// cut within the first writeback interval after creation is outside this check - stated in the evidence.)
	{
		var withSync []vfSysOp
		seenHdr := map[string]bool{}
		for _, op := range ops {
			withSync = append(withSync, op)
			if op.Kind == "w" && op.Off == 0 && len(op.Data) == LenMetaInfo && !seenHdr[op.File] {
				seenHdr[op.File] = true
				withSync = append(withSync, vfSysOp{Kind: "s", File: op.File})
			}
		}
		ops = withSync
	}
	if len(ops) < 6 {
		return vlib.Failf("harness:trace", "only %d file operations found in the trace", len(ops))
	}
	pub := vfPub(c.Scalar)
	pkHash := pocutil.PubKeyHash(pub)
	ref := vfReference(pkHash, c.BL)
	nameA, nameB := "", ""
	for _, op := range ops {
		if strings.HasSuffix(op.File, "_a.massdb") {
			nameA = op.File
		} else if strings.HasSuffix(op.File, ".massdb") {
			nameB = op.File
		}
	}
	// sanity of the trace: the last state (no crash) is the complete plot
	writes, syncs, unlinks := 0, 0, 0
	for _, op := range ops {
		switch op.Kind {
		case "w":
			writes++
		case "s":
			syncs++
		case "u":
			unlinks++
		}
	}
	ctx.LabelN("trace-writes", writes)
	ctx.LabelN("trace-fsyncs", syncs)
	ctx.LabelN("trace-unlinks", unlinks)
	states := 0
	betweenSyncAndCkpt := false
	for prefix := 2; prefix <= len(ops); prefix++ {
		if c.OnlyPrefix != 0 && prefix != c.OnlyPrefix {
			continue
		}
		for _, st := range vfCrashStates(ops, prefix) {
			if c.OnlyPattern != "" && st.pattern != c.OnlyPattern {
				continue
			}
			if _, ok := st.img[nameB]; !ok {
				continue // crash before both files were created: the keeper would re-create the space
			}
			if len(st.img[nameB]) < LenMetaInfo || (st.img[nameA] != nil && len(st.img[nameA]) < LenMetaInfo) {
				continue // header write itself torn at creation: not an interrupted *plot*
			}
			states++
			if st.pattern != "all-unsynced-survive" {
				betweenSyncAndCkpt = true
			}
			dir := filepath.Join(root, fmt.Sprintf("s%d", states))
			os.MkdirAll(dir, 0o755)
			for name, data := range st.img {
				if err := os.WriteFile(filepath.Join(dir, name), data, 0o644); err != nil {
					panic(err)
				}
			}
			where := fmt.Sprintf("bl=%d caps A%v B%v, crash after trace op %d/%d (%s %s), %s", c.BL, c.Plan.CapsA, c.Plan.CapsB, prefix, len(ops), ops[prefix-1].Kind, ops[prefix-1].File, st.pattern)
			cc := vfC10Case{Scalar: c.Scalar, BL: c.BL}
			if _, hasA := st.img[nameA]; !hasA {
				ctx.Label("state-without-mapA")
			}
			done, f := vfJudgeInterrupted(dir, 7, &cc, ref, where)
			if f != nil {
				f.Sig = "crash:" + f.Sig
				f.Msg += fmt.Sprintf(" [replay: onlyPrefix=%d onlyPattern=%q]", prefix, st.pattern)
				return f
			}
			if !done {
				dbi, err := vfOpenLikeKeeper(dir, int64(7), pub, c.BL)
				if err != nil {
					return vlib.Failf("crash:does-not-open", "%s: %v", where, err)
				}
				mdb := dbi.(*MassDBV1)
				res := vfPlot(mdb, c.Resume, ref, pkHash)
				mdb.Close()
				if res.nonAdvancing != "" {
					return vlib.Failf("crash:resume-does-not-terminate", "%s: %s", where, res.nonAdvancing)
				}
				if res.plotErr != nil {
					return vlib.Failf("crash:resume-error", "%s: %v", where, res.plotErr)
				}
				if res.mapAAtRemove != nil {
					res.mapAAtRemove.Sig = "crash:resume:" + res.mapAAtRemove.Sig
					res.mapAAtRemove.Msg = where + ": " + res.mapAAtRemove.Msg
					return res.mapAAtRemove
				}
			}
			re, err := OpenDB(dir, int64(7), pub, c.BL)
			if err != nil {
				return vlib.Failf("crash:does-not-open", "%s: after resume: %v", where, err)
			}
			if !re.Ready() {
				re.Close()
				return vlib.Failf("crash:resume-not-complete", "%s: not plotted after an uninterrupted resume", where)
			}
			f = vfCheckTableB(re.(*MassDBV1).HashMapB, ref, pkHash, where+" (after resume)")
			re.Close()
			if f != nil {
				f.Sig = "crash:resume:" + f.Sig
				return f
			}
			os.RemoveAll(dir)
		}
	}
	ctx.LabelN("crash-states", states)
	if states == 0 {
		return vlib.Failf("harness:no-crash-states", "trace of %d ops produced no crash state", len(ops))
	}
	// the uninterrupted end state of the child equals the reference (guards the trace reconstruction itself)
	full := vfCrashStates(ops, len(ops))[0]
	if !bytes.Equal(bytes.TrimRight(full.img[nameB][LenMetaInfo:], "\x00"), bytes.TrimRight(vfRefBytesB(ref), "\x00")) {
		ctx.Label("reconstructed-final-table-differs-from-reference-bytes(tie-breaking)")
	}
	if betweenSyncAndCkpt {
		ctx.NonTrivial()
	}
	return nil
}

func vfRefBytesB(ref *vfRef) []byte {
	out := make([]byte, len(ref.b)*2*ref.rs)
	for z, e := range ref.b {
		var b8 [8]byte
		for k := 0; k < 2; k++ {
			v := e[k]
			for i := 0; i < 8; i++ {
				b8[i] = byte(v >> (8 * uint(i)))
			}
			copy(out[(z*2+k)*ref.rs:], b8[:ref.rs])
		}
	}
	return out
}

var vfCrashSpec = vlib.Spec[vfCrashCase]{
	Prop: "C10", Name: "crash-state-enumeration", Scale: 0.08, Min: 2,
	Rule: "generated configuration (key, bit length 8..12, window caps of the crashing run and of the resuming run); the plot runs in a child process under strace; ALL prefixes of the observed sequence of pwrite/fsync/unlink calls on the plot files are turned into post-crash images (unsynced writes: all survive / all lost / last one torn / exactly one lost / exactly one survives) — exhaustive per configuration; every image is re-opened, judged (opens; plotted => complete; checkpoints covered by data equal to the final table; map A present unless the table is complete) and resumed to completion with other caps, final table sound+complete; non-trivial = configuration whose enumeration contains states with lost unsynced writes (crash between a write and its fsync); distinct = distinct case JSON",
	Gen: func(t *rapid.T) vfCrashCase {
		bl := rapid.SampledFrom([]int{8, 8, 9, 10, 10, 12}).Draw(t, "bl")
		return vfCrashCase{Scalar: rapid.SliceOfN(rapid.Byte(), 1, 32).Draw(t, "scalar"), BL: bl, Plan: vfGenPlan(t, "crash", bl), Resume: vfGenPlan(t, "resume", bl)}
	},
	Run: vfCrashRun,
}

func TestVerif_C10Crash(t *testing.T) { vlib.Both(t, vfCrashSpec) }
