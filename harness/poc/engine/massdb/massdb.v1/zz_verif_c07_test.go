package massdb_v1

// C07 — a completed plot equals the proof-of-capacity construction (DESIGN.md §4 C07).

import (
	"fmt"
	"os"
	"testing"

	"github.com/massnetorg/mass-core/poc/pocutil"

	"pgregory.net/rapid"
	"verif/vlib"
)

type vfC07Case struct {
	Scalar []byte    `json:"scalar"`
	BL     int       `json:"bl"`
	Plan   vfRunPlan `json:"plan"`
	Plan2  vfRunPlan `json:"plan2"` // second window configuration for the metamorphic comparison
}

func vfGenCaps(t *rapid.T, label string, total int, minCap int) []int {
	// window sizes in records (A) / pairs (B); 0 = uncapped
	n := rapid.IntRange(0, 4).Draw(t, label+"N")
	var caps []int
	for i := 0; i < n; i++ {
		switch rapid.IntRange(0, 5).Draw(t, label+"Kind") {
		case 0:
			caps = append(caps, 0)
		case 1:
			caps = append(caps, minCap+rapid.IntRange(0, 3).Draw(t, label+"Tiny")) // around the minimum legal window
		case 2:
			caps = append(caps, total/rapid.IntRange(2, 6).Draw(t, label+"Div")+rapid.IntRange(0, 3).Draw(t, label+"Odd")) // does not divide the volume, odd counts
		default:
			caps = append(caps, rapid.IntRange(total/8+minCap, total).Draw(t, label+"Any"))
		}
	}
	for i := range caps {
		if caps[i] != 0 && caps[i] < total/24+minCap {
			caps[i] = total/24 + minCap // bound the number of windows (each window is a full scan)
		}
	}
	return caps
}

func vfGenPlan(t *rapid.T, label string, bl int) vfRunPlan {
	vol := 1 << uint(bl)
	return vfRunPlan{CapsA: vfGenCaps(t, label+"A", vol, 2), CapsB: vfGenCaps(t, label+"B", vol/2, 1)}
}

func vfGenBL(t *rapid.T) int {
	return rapid.SampledFrom([]int{8, 8, 9, 10, 10, 11, 12, 12, 12, 13, 14, 14, 16}).Draw(t, "bl")
}

func vfC07Run(c vfC07Case, ctx *vlib.Ctx) *vlib.Failure {
	vfSetup()
	pub := vfPub(c.Scalar)
	pkHash := pocutil.PubKeyHash(pub)
	ref := vfReference(pkHash, c.BL)
	var hashes []string
	var refEqual bool
	multi := false
	for run, plan := range []vfRunPlan{c.Plan, c.Plan2} {
		dir, err := os.MkdirTemp("", "vfc07")
		if err != nil {
			panic(err)
		}
		defer os.RemoveAll(dir)
		dbi, err := CreateDB(dir, int64(run), pub, c.BL)
		if err != nil {
			return vlib.Failf("create-failed", "%v", err)
		}
		mdb := dbi.(*MassDBV1)
		where := fmt.Sprintf("bl=%d run %d caps A%v B%v", c.BL, run, plan.CapsA, plan.CapsB)
		res := vfPlot(mdb, plan, ref, pkHash)
		if res.nonAdvancing != "" {
			mdb.Close()
			return vlib.Failf("plot:window-does-not-advance", "%s: %s", where, res.nonAdvancing)
		}
		if res.plotErr != nil {
			mdb.Close()
			return vlib.Failf("plot:error", "%s: Plot returned %v", where, res.plotErr)
		}
		if res.mapAAtRemove != nil {
			mdb.Close()
			res.mapAAtRemove.Msg = where + ": " + res.mapAAtRemove.Msg
			return res.mapAAtRemove
		}
		pre, plotted, prog := mdb.Progress()
		if !pre || !plotted || prog != 100 || !mdb.Ready() {
			mdb.Close()
			return vlib.Failf("plot:not-ready-after-completion", "%s: Progress()=(%v,%v,%v) Ready=%v", where, pre, plotted, prog, mdb.Ready())
		}
		if _, err := os.Stat(mdb.filePathA); err == nil {
			mdb.Close()
			return vlib.Failf("plot:mapA-not-removed", "%s: map A still exists after completion", where)
		}
		if f := vfCheckTableB(mdb.HashMapB, ref, pkHash, where); f != nil {
			mdb.Close()
			return f
		}
		// reopen: a completed plot is found complete and serves the same table
		pathB := mdb.filePathB
		mdb.Close()
		re, err := OpenDB(dir, int64(run), pub, c.BL)
		if err != nil {
			return vlib.Failf("reopen-failed", "%s: OpenDB after completion: %v", where, err)
		}
		if !re.Ready() {
			re.Close()
			return vlib.Failf("plot:not-ready-after-reopen", "%s", where)
		}
		if f := vfCheckTableB(re.(*MassDBV1).HashMapB, ref, pkHash, where+" (reopened)"); f != nil {
			re.Close()
			return f
		}
		re.Close()
		hashes = append(hashes, vfFileHash(pathB))
		if res.windowsA >= 2 || res.windowsB >= 2 {
			multi = true
		}
		ctx.LabelN("windows-A", res.windowsA)
		ctx.LabelN("windows-B", res.windowsB)
		if run == 0 {
			// informational: byte equality with the reference table (tie-breaking included)
			refEqual = true
			mdb2, _ := NewMassDBV1ForTest(pathB)
			if mdb2 != nil {
				for z := range ref.b {
					xb, xpb, err := mdb2.HashMapB.Get(pocutil.PoCValue(z))
					if err != nil {
						if ref.b[z][0] != 0 {
							refEqual = false
						}
						continue
					}
					if vfLE(xb) != ref.b[z][0] || vfLE(xpb) != ref.b[z][1] {
						refEqual = false
					}
				}
				mdb2.HashMapB.Close()
			}
		}
	}
	if hashes[0] != hashes[1] {
		return vlib.Failf("table:depends-on-window-configuration", "bl=%d key %x: table hash %s with caps A%v B%v, %s with caps A%v B%v", c.BL, pub.SerializeCompressed(), hashes[0], c.Plan.CapsA, c.Plan.CapsB, hashes[1], c.Plan2.CapsA, c.Plan2.CapsB)
	}
	if refEqual {
		ctx.Label("byte-equal-to-reference-table")
	} else {
		ctx.Label("differs-from-reference-in-tie-breaking-only")
	}
	ctx.Label(fmt.Sprintf("bl-%d", c.BL))
	if multi {
		ctx.NonTrivial()
	}
	return nil
}

var vfC07Spec = vlib.Spec[vfC07Case]{
	Prop: "C07", Name: "plot-vs-construction",
	Rule: "public keys from generated scalars, bit lengths 8..16 (scale model of 24..40, including bl%8!=0), two generated window configurations per case through hook H1 (0-4 per-window caps per pass, cycled: uncapped, around the minimum legal window, sizes that do not divide the volume, odd record counts, different caps for pass A and B); each configuration is plotted with the real CreateDB/Plot code; oracles: (1) every stored entry is a valid proof for its prefix (chain library pocutil P/F), (2) completeness against an independent straightforward reference construction (a prefix has an entry iff the construction yields one), (3) map A before removal is sound and complete, (4) the table bytes are identical for both window configurations, and the plot is Ready and re-opens as complete; non-trivial = at least one pass used >=2 windows; distinct = distinct case JSON",
	Gen: func(t *rapid.T) vfC07Case {
		bl := vfGenBL(t)
		return vfC07Case{Scalar: rapid.SliceOfN(rapid.Byte(), 1, 32).Draw(t, "scalar"), BL: bl, Plan: vfGenPlan(t, "p1", bl), Plan2: vfGenPlan(t, "p2", bl)}
	},
	Run: vfC07Run,
}

func TestVerif_C07(t *testing.T) {
	t.Run("scale-model", func(t *testing.T) { vlib.Both(t, vfC07Spec) })
	t.Run("full-scale", vfC07FullScale)
}

// One plot at the smallest production bit length (24), thorough tier only, first shard only: the same oracles as
// the scale model (validity of every entry, completeness against the reference construction, byte equality of
// an uncapped and a multi-window run).
func vfC07FullScale(t *testing.T) {
	if !vlib.Thorough() || vlib.ReplayMode() || os.Getenv("VERIF_SHARD") != "0" {
		t.Skip("thorough tier, first shard only")
	}
	vol := 1 << 24
	c := vfC07Case{Scalar: []byte{0xc7, 0x24}, BL: 24,
		Plan:  vfRunPlan{CapsA: []int{0}, CapsB: []int{0}},
		Plan2: vfRunPlan{CapsA: []int{vol/3 + 1, vol / 4}, CapsB: []int{vol/10 + 3}}}
	ctx := vlib.NewCtx()
	if f := vfC07Run(c, ctx); f != nil {
		vlib.ReportFailure(t, "C07", "full-scale-bl24", f, c)
		return
	}
	vlib.Count("C07", "full-scale-bl24", "one key at bit length 24 plotted twice with the real code (uncapped; pass A in windows of 1/3 and 1/4 of the volume, pass B in windows of 1/10 of the pairs), same oracles as the scale model; one non-trivial case", 1, []string{"bl24"}, map[string]int{"bl-24": 1}, []interface{}{c})
}
