package massdb_v1

// C10 — interrupted plotting resumes to the same result and is never falsely complete (DESIGN.md §4 C10).
// Part 1 (this file): graceful interruptions (StopPlot) at every named point of both passes, single or repeated,
// with different window sizes before and after; after every interruption the space is re-opened and judged.
// Part 2 (zz_verif_c10crash_test.go): abrupt crashes enumerated from a syscall trace.

import (
	"fmt"
	"os"
	"testing"

	"github.com/massnetorg/mass-core/poc/pocutil"
	"github.com/massnetorg/mass-core/pocec"
	"massnet.org/mass/poc/engine/massdb"

	"pgregory.net/rapid"
	"verif/vlib"
)

type vfC10Case struct {
	Scalar []byte      `json:"scalar"`
	BL     int         `json:"bl"`
	Runs   []vfRunPlan `json:"runs"` // every run but the last carries a Stop; the last one runs to completion
}

var vfStopPoints = []string{"A.iter", "A.window", "A.scanned", "B.scanned", "A.dataSynced", "A.ckptSynced", "A.final", "B.iter", "B.window", "B.dataSynced", "B.ckptSynced", "B.final", "beforeRemoveA"}

// vfJudgeInterrupted inspects a space after an interruption (files closed): it must open, must not claim to be
// plotted unless its table is complete, and recorded progress must not be ahead of the data.
func vfJudgeInterrupted(dir string, ordinal int64, c *vfC10Case, ref *vfRef, where string) (done bool, f *vlib.Failure) {
	pub := vfPub(c.Scalar)
	pkHash := pocutil.PubKeyHash(pub)
	dbi, err := vfOpenLikeKeeper(dir, ordinal, pub, c.BL)
	if err != nil {
		return false, vlib.Failf("interrupted:does-not-open", "%s: OpenDB: %v", where, err)
	}
	mdb := dbi.(*MassDBV1)
	defer mdb.Close()
	pre, plotted, prog := mdb.Progress()
	half := (uint64(1) << uint(c.BL)) / 2
	if plotted != mdb.Ready() {
		return false, vlib.Failf("interrupted:ready-disagrees", "%s: Progress plotted=%v, Ready=%v", where, plotted, mdb.Ready())
	}
	if plotted {
		// a space that reports itself plotted must have the complete table
		if f := vfCheckTableB(mdb.HashMapB, ref, pkHash, where+" (reports plotted)"); f != nil {
			f.Sig = "falsely-complete:" + f.Sig
			return true, f
		}
		return true, nil
	}
	if prog >= 100 {
		return false, vlib.Failf("interrupted:progress-100-but-not-plotted", "%s: progress %v", where, prog)
	}
	// not plotted: map A must still exist (OpenDB loaded it) and recorded progress must be covered by data
	if mdb.HashMapA == nil {
		return false, vlib.Failf("interrupted:mapA-missing", "%s: not plotted but map A is gone", where)
	}
	ca := uint64(mdb.HashMapA.checkpoint)
	vol := uint64(1) << uint(c.BL)
	if ca > vol {
		return false, vlib.Failf("interrupted:checkpoint-out-of-range", "%s: map A checkpoint %d > volume %d", where, ca, vol)
	}
	if pre != (ca >= vol) {
		return false, vlib.Failf("interrupted:preplotted-disagrees", "%s: prePlotted=%v with checkpoint %d/%d", where, pre, ca, vol)
	}
	if f := vfCheckMapA(mdb.filePathA, ref, pkHash, ca, where+fmt.Sprintf(" (map A checkpoint %d)", ca)); f != nil {
		f.Sig = "progress-ahead-of-data:" + f.Sig
		return false, f
	}
	cb := uint64(mdb.HashMapB.checkpoint)
	if cb > 0 {
		if ca < vol {
			return false, vlib.Failf("progress-ahead-of-data:B-before-A", "%s: map B checkpoint %d although map A is incomplete (%d/%d)", where, cb, ca, vol)
		}
		if cb > half {
			return false, vlib.Failf("interrupted:checkpoint-out-of-range", "%s: map B checkpoint %d > %d", where, cb, half)
		}
		// all prefixes below 2*cb must already equal the final table
		solv := ref.solvable()
		for z := uint64(0); z < 2*cb; z++ {
			xb, xpb, err := mdb.HashMapB.Get(pocutil.PoCValue(z))
			var x, xp uint64
			if err == nil {
				x, xp = vfLE(xb), vfLE(xpb)
			}
			if (x != 0 || xp != 0) != solv[z] {
				return false, vlib.Failf("progress-ahead-of-data:B", "%s: map B checkpoint %d but prefix %d holds (%d,%d), final table has entry=%v", where, cb, z, x, xp, solv[z])
			}
			if solv[z] && (uint64(pocutil.F(pocutil.PoCValue(x), pocutil.PoCValue(xp), c.BL, pkHash)) != z) {
				return false, vlib.Failf("progress-ahead-of-data:B", "%s: map B checkpoint %d but prefix %d holds an invalid pair (%d,%d)", where, cb, z, x, xp)
			}
		}
	}
	return false, nil
}

// vfOpenLikeKeeper opens a space the way the keeper's NewWorkSpace does: OpenDB, and CreateDB when a file does not
// exist (CreateDB keeps existing files and creates the missing ones).
func vfOpenLikeKeeper(dir string, ordinal int64, pub *pocec.PublicKey, bl int) (massdb.MassDB, error) {
	dbi, err := OpenDB(dir, ordinal, pub, bl)
	if err == massdb.ErrDBDoesNotExist {
		return CreateDB(dir, ordinal, pub, bl)
	}
	return dbi, err
}

func vfC10Run(c vfC10Case, ctx *vlib.Ctx) *vlib.Failure {
	vfSetup()
	pub := vfPub(c.Scalar)
	pkHash := pocutil.PubKeyHash(pub)
	ref := vfReference(pkHash, c.BL)
	dir, err := os.MkdirTemp("", "vfc10")
	if err != nil {
		panic(err)
	}
	defer os.RemoveAll(dir)
	dbi, err := CreateDB(dir, int64(7), pub, c.BL)
	if err != nil {
		return vlib.Failf("create-failed", "%v", err)
	}
	dbi.Close()
	interruptions, insidePass := 0, false
	for ri, plan := range c.Runs {
		where := fmt.Sprintf("bl=%d run %d/%d caps A%v B%v stop %+v", c.BL, ri+1, len(c.Runs), plan.CapsA, plan.CapsB, plan.Stop)
		dbi, err := OpenDB(dir, int64(7), pub, c.BL)
		if err != nil {
			return vlib.Failf("interrupted:does-not-open", "%s: OpenDB: %v", where, err)
		}
		mdb := dbi.(*MassDBV1)
		if mdb.Ready() {
			mdb.Close()
			break
		}
		res := vfPlot(mdb, plan, ref, pkHash)
		pathB := mdb.filePathB
		mdb.Close()
		if res.nonAdvancing != "" {
			return vlib.Failf("resume:does-not-terminate", "%s: %s (the pass no longer advances; it would spin forever)", where, res.nonAdvancing)
		}
		if res.plotErr != nil && !res.faultFired {
			return vlib.Failf("plot:error", "%s: Plot returned %v", where, res.plotErr)
		}
		if res.faultFired {
			// the flush of one window could not be written: whatever Plot() reports, the space must not be left
			// claiming more than it holds (judged below like any other interruption)
			ctx.Label("write-fault-injected")
			if res.plotErr == nil {
				ctx.Label("write-fault:plot-reported-success")
			}
			interruptions++
			insidePass = true
		}
		if res.mapAAtRemove != nil {
			res.mapAAtRemove.Msg = where + ": " + res.mapAAtRemove.Msg
			return res.mapAAtRemove
		}
		if res.stopped {
			interruptions++
			if res.windowsA >= 1 || res.windowsB >= 1 {
				insidePass = true
			}
		}
		done, f := vfJudgeInterrupted(dir, 7, &c, ref, where)
		if f != nil {
			return f
		}
		if done {
			if _, err := os.Stat(pathB); err != nil {
				return vlib.Failf("plot:tableB-missing", "%s", where)
			}
		}
		if ri == len(c.Runs)-1 && !done {
			return vlib.Failf("resume:not-complete-after-uninterrupted-run", "%s: the last run had no interruption but the space is not plotted", where)
		}
	}
	// final table equals the uninterrupted construction (soundness + completeness were checked by the judge when
	// plotted; compare with the reference once more through a fresh open)
	re, err := OpenDB(dir, int64(7), pub, c.BL)
	if err != nil {
		return vlib.Failf("reopen-failed", "final OpenDB: %v", err)
	}
	defer re.Close()
	if !re.Ready() {
		return vlib.Failf("resume:not-complete-after-uninterrupted-run", "bl=%d: space not ready at the end", c.BL)
	}
	if f := vfCheckTableB(re.(*MassDBV1).HashMapB, ref, pkHash, "final table after resume"); f != nil {
		f.Sig = "resume:" + f.Sig
		return f
	}
	ctx.LabelN("interruptions", interruptions)
	for _, r := range c.Runs {
		if r.Stop != nil {
			ctx.Label("stop-at:" + r.Stop.Point)
		}
	}
	if interruptions > 0 && insidePass {
		ctx.NonTrivial()
	}
	return nil
}

func vfGenC10(t *rapid.T) vfC10Case {
	bl := rapid.SampledFrom([]int{8, 8, 9, 10, 10, 11, 12, 12, 14}).Draw(t, "bl")
	c := vfC10Case{Scalar: rapid.SliceOfN(rapid.Byte(), 1, 32).Draw(t, "scalar"), BL: bl}
	n := rapid.IntRange(1, 3).Draw(t, "interruptions")
	for i := 0; i < n; i++ {
		p := vfGenPlan(t, fmt.Sprintf("r%d", i), bl)
		if rapid.IntRange(0, 4).Draw(t, "writeFault") == 0 {
			p.WriteFault = &vfStopAt{Point: rapid.SampledFrom([]string{"A.scanned", "B.scanned", "B.scanned"}).Draw(t, "faultPoint"), Nth: rapid.IntRange(1, 3).Draw(t, "faultNth")}
		} else {
			p.Stop = &vfStopAt{Point: rapid.SampledFrom(vfStopPoints).Draw(t, "stopPoint"), Nth: rapid.IntRange(1, 4).Draw(t, "nth")}
		}
		c.Runs = append(c.Runs, p)
	}
	c.Runs = append(c.Runs, vfGenPlan(t, "last", bl))
	return c
}

var vfC10Spec = vlib.Spec[vfC10Case]{
	Prop: "C10", Name: "graceful-stop-and-resume",
	Rule: "keys from generated scalars, bit lengths 8..14, 1-3 interruptions (StopPlot issued at the n-th occurrence of a named point of pass A or B: iteration start, window chosen, data synced, checkpoint synced, final checkpoint, before removal of map A; or, in a fifth of them, a failing flush: the data file of the pass is read-only for the window just computed), each run with its own generated window caps (different before and after), last run uninterrupted; after every interruption the space is re-opened: plotted => table sound and complete, checkpoints within range and covered by data that already equals the final table, map A present while not plotted; resume must advance (a repeated or empty window is the deterministic verdict 'does not terminate'); final table sound+complete against the independent reference; non-trivial = at least one interruption that took effect after a window had been chosen; distinct = distinct case JSON",
	Gen:  vfGenC10, Run: vfC10Run,
}

func TestVerif_C10(t *testing.T) { vlib.Both(t, vfC10Spec) }
