package massdb_v1

// Shared plotting harness for C07 (a completed plot equals the construction) and C10 (interrupted plotting
// resumes to the same result and is never falsely complete). DESIGN.md §4 C07/C10, hooks H1/H2.

import (
	"bytes"
	"crypto/sha256"
	"encoding/binary"
	"fmt"
	"math/big"
	"os"
	"path/filepath"
	"sync"
	"time"

	"github.com/massnetorg/mass-core/logging"
	"github.com/massnetorg/mass-core/poc/pocutil"
	"github.com/massnetorg/mass-core/pocec"

	"verif/vlib"
)

var vfOnce sync.Once

func vfSetup() {
	vfOnce.Do(func() {
		base := os.Getenv("TMPDIR")
		if base == "" {
			base = os.TempDir()
		}
		d := filepath.Join(base, fmt.Sprintf("vfplotlog-%d", os.Getpid()))
		os.MkdirAll(d, 0o755)
		logging.Init(d, "vf.log", "error", 0, true)
	})
}

func vfPub(scalar []byte) *pocec.PublicKey {
	d := new(big.Int).SetBytes(scalar)
	d.Mod(d, new(big.Int).Sub(pocec.S256().N, big.NewInt(1)))
	d.Add(d, big.NewInt(1))
	_, pub := pocec.PrivKeyFromBytes(pocec.S256(), d.Bytes())
	return pub
}

// ---- reference construction (no windows, plain slices) -----------------------------------------------

type vfRef struct {
	bl   int
	rs   int
	a    []uint64    // index = stored position in map A (y*2 resp. flip(y)*2+1); 0 = empty
	b    [][2]uint64 // index = z
	nonE int         // non-empty entries of b
}

// vfReference builds table A and B as the construction defines them: A[pos(P(x))] = x for x = 1..2^bl-1 (a later x
// replaces an earlier one; x = 0 is the empty marker), and for every k with both A[2k] and A[2k+1] present,
// B[F(x,x')] = (x,x') and B[F(x',x)] = (x',x), in ascending k.
func vfReference(pkHash pocutil.Hash, bl int) *vfRef {
	vol := uint64(1) << uint(bl)
	half := vol / 2
	r := &vfRef{bl: bl, rs: pocutil.RecordSize(bl), a: make([]uint64, vol), b: make([][2]uint64, vol)}
	for x := uint64(0); x < vol; x++ {
		y := uint64(pocutil.P(pocutil.PoCValue(x), bl, pkHash))
		var pos uint64
		if y < half {
			pos = y * 2
		} else {
			pos = uint64(pocutil.FlipValue(pocutil.PoCValue(y), bl))*2 + 1
		}
		r.a[pos] = x
	}
	for k := uint64(0); k < half; k++ {
		x, xp := r.a[2*k], r.a[2*k+1]
		if x == 0 || xp == 0 {
			continue
		}
		z := uint64(pocutil.F(pocutil.PoCValue(x), pocutil.PoCValue(xp), bl, pkHash))
		r.b[z] = [2]uint64{x, xp}
		zp := uint64(pocutil.F(pocutil.PoCValue(xp), pocutil.PoCValue(x), bl, pkHash))
		r.b[zp] = [2]uint64{xp, x}
	}
	for _, e := range r.b {
		if e[0] != 0 || e[1] != 0 {
			r.nonE++
		}
	}
	return r
}

// solvable reports for which z the construction yields SOME proof (independent of tie-breaking among colliding x).
func (r *vfRef) solvable() []bool {
	s := make([]bool, len(r.b))
	for z, e := range r.b {
		s[z] = e[0] != 0 || e[1] != 0
	}
	return s
}

func vfLE(b []byte) uint64 {
	var b8 [8]byte
	copy(b8[:], b)
	return binary.LittleEndian.Uint64(b8[:])
}

// vfCheckTableB: (1) every non-empty entry is a valid proof for its prefix, (2) every prefix for which the
// construction yields a proof has one, every other prefix is empty.
func vfCheckTableB(hmB *HashMapB, ref *vfRef, pkHash pocutil.Hash, where string) *vlib.Failure {
	bl := ref.bl
	vol := uint64(1) << uint(bl)
	solv := ref.solvable()
	var prevX, prevXp, prevXc, prevXpc []byte
	for z := uint64(0); z < vol; z++ {
		xb, xpb, err := hmB.Get(pocutil.PoCValue(z))
		// an entry handed out earlier (e.g. a proof the miner still holds) must not change when another is looked up
		if prevX != nil && (!bytes.Equal(prevX, prevXc) || !bytes.Equal(prevXp, prevXpc)) {
			return vlib.Failf("table:served-entry-changed-by-later-lookup", "%s: the entry returned for prefix %d changed when prefix %d was looked up", where, z-1, z)
		}
		if err == nil {
			prevX, prevXp = xb, xpb
			prevXc, prevXpc = append([]byte(nil), xb...), append([]byte(nil), xpb...)
		} else {
			prevX = nil
		}
		if err != nil {
			if solv[z] {
				return vlib.Failf("table:missing-proof", "%s: prefix %d: the construction yields a proof but the table cannot be read there: %v", where, z, err)
			}
			continue // sparse file shorter than the table: reads as empty
		}
		x, xp := vfLE(xb), vfLE(xpb)
		empty := x == 0 && xp == 0
		if empty {
			if solv[z] {
				return vlib.Failf("table:missing-proof", "%s: prefix %d has no entry, the construction yields (%d,%d)", where, z, ref.b[z][0], ref.b[z][1])
			}
			continue
		}
		y := pocutil.P(pocutil.PoCValue(x), bl, pkHash)
		yp := pocutil.P(pocutil.PoCValue(xp), bl, pkHash)
		if y != pocutil.FlipValue(yp, bl) {
			return vlib.Failf("table:invalid-entry", "%s: prefix %d holds (%d,%d) but P(x)=%d is not the bit-flip of P(x')=%d", where, z, x, xp, y, yp)
		}
		if f := pocutil.F(pocutil.PoCValue(x), pocutil.PoCValue(xp), bl, pkHash); uint64(f) != z {
			return vlib.Failf("table:invalid-entry", "%s: prefix %d holds (%d,%d) but F(x,x')=%d", where, z, x, xp, f)
		}
		if !solv[z] {
			return vlib.Failf("table:unexpected-entry", "%s: prefix %d holds (%d,%d) although the construction yields no proof there", where, z, x, xp)
		}
	}
	// concurrent lookups (the keeper serves GetProof from a worker pool): every answer must still be the entry of
	// its own prefix
	var wg sync.WaitGroup
	var cmu sync.Mutex
	var cf *vlib.Failure
	for g := 0; g < 4; g++ {
		wg.Add(1)
		go func(g int) {
			defer wg.Done()
			for i := 0; i < 200; i++ {
				z := (uint64(g)*7919 + uint64(i)*104729) % vol
				xb, xpb, err := hmB.Get(pocutil.PoCValue(z))
				if err != nil {
					continue
				}
				x, xp := vfLE(xb), vfLE(xpb)
				if (x != 0 || xp != 0) && uint64(pocutil.F(pocutil.PoCValue(x), pocutil.PoCValue(xp), bl, pkHash)) != z {
					cmu.Lock()
					if cf == nil {
						cf = vlib.Failf("table:concurrent-lookup-mixed-entries", "%s: concurrent lookup of prefix %d returned (%d,%d) which is not a proof for it", where, z, x, xp)
					}
					cmu.Unlock()
					return
				}
			}
		}(g)
	}
	wg.Wait()
	return cf
}

// vfCheckMapA checks records [0,upto) of the map A file against the reference (sound and complete).
func vfCheckMapA(pathA string, ref *vfRef, pkHash pocutil.Hash, upto uint64, where string) *vlib.Failure {
	raw, err := os.ReadFile(pathA)
	if err != nil {
		return vlib.Failf("mapA:unreadable", "%s: %v", where, err)
	}
	rs := ref.rs
	half := (uint64(1) << uint(ref.bl)) / 2
	for pos := uint64(0); pos < upto; pos++ {
		off := PosProofData + int(pos)*rs
		var x uint64
		if off+rs <= len(raw) {
			x = vfLE(raw[off : off+rs])
		}
		want := ref.a[pos]
		if x == 0 {
			if want != 0 {
				return vlib.Failf("mapA:missing-record", "%s: map A position %d is empty, the construction has x=%d", where, pos, want)
			}
			continue
		}
		y := uint64(pocutil.P(pocutil.PoCValue(x), ref.bl, pkHash))
		var p uint64
		if y < half {
			p = y * 2
		} else {
			p = uint64(pocutil.FlipValue(pocutil.PoCValue(y), ref.bl))*2 + 1
		}
		if p != pos {
			return vlib.Failf("mapA:invalid-record", "%s: map A position %d holds x=%d whose P value belongs to position %d", where, pos, x, p)
		}
		if want == 0 {
			return vlib.Failf("mapA:unexpected-record", "%s: map A position %d holds x=%d, the construction has none", where, pos, x)
		}
	}
	return nil
}

// ---- plot driver with hooks ---------------------------------------------------------------------------

type vfStopAt struct {
	Point string `json:"point"` // H2 point name
	Nth   int    `json:"nth"`   // 1-based occurrence within this run
}

type vfRunPlan struct {
	CapsA []int     `json:"capsA"` // records per pass-A window (cycled); 0 = no cap
	CapsB []int     `json:"capsB"` // pairs per pass-B window (cycled); 0 = no cap
	Stop  *vfStopAt `json:"stop,omitempty"`
	// WriteFault: at the n-th "A.scanned"/"B.scanned" (a window has been computed, its flush comes next) the data
	// file of that pass is swapped for a read-only handle: the flush fails like on a full or failing disk
	WriteFault *vfStopAt `json:"writeFault,omitempty"`
}

type vfEvent struct {
	Name string
	A, B uint64
}

type vfRunResult struct {
	events       []vfEvent
	windowsA     int
	windowsB     int
	stopped      bool
	nonAdvancing string // set when a window did not advance (resume would never terminate)
	plotErr      error
	mapAAtRemove *vlib.Failure
	faultFired   bool
}

var vfHookMu sync.Mutex // one plot with hooks at a time per process

// vfPlot runs mdb.Plot() under the plan and returns what happened. It never waits on wall-clock time for a
// verdict: non-termination is recognised from window events that do not advance.
func vfPlot(mdb *MassDBV1, plan vfRunPlan, ref *vfRef, pkHash pocutil.Hash) *vfRunResult {
	vfHookMu.Lock()
	defer vfHookMu.Unlock()
	res := &vfRunResult{}
	rs := uint64(pocutil.RecordSize(mdb.bl))
	phase := ""
	iterA, iterB := 0, 0
	counts := map[string]int{}
	var lastStartA, lastStartB int64 = -1, -1
	var swapped *HashMap
	var orig, roHandle *os.File
	stopTriggered := false
	triggerStop := func() {
		if stopTriggered {
			return
		}
		stopTriggered = true
		res.stopped = true
		ch := mdb.stopPlotCh
		go mdb.StopPlot()
		// wait until the stop signal is visible to the plotting loop (channel closed)
		for {
			select {
			case <-ch:
				return
			default:
				time.Sleep(50 * time.Microsecond)
			}
		}
	}
	VerifCacheCap = func(required uint64) uint64 {
		switch phase {
		case "A":
			if len(plan.CapsA) > 0 {
				if c := plan.CapsA[(iterA-1+len(plan.CapsA))%len(plan.CapsA)]; c > 0 && uint64(c)*rs < required {
					return uint64(c) * rs
				}
			}
		case "B":
			if len(plan.CapsB) > 0 {
				if c := plan.CapsB[(iterB-1+len(plan.CapsB))%len(plan.CapsB)]; c > 0 && uint64(c)*rs*4 < required {
					return uint64(c) * rs * 4
				}
			}
		}
		return required
	}
	VerifPoint = func(m *MassDBV1, name string, a, b pocutil.PoCValue) {
		if m != mdb {
			return
		}
		res.events = append(res.events, vfEvent{name, uint64(a), uint64(b)})
		counts[name]++
		switch name {
		case "A.iter":
			phase = "A"
			iterA++
		case "B.iter":
			phase = "B"
			iterB++
		case "A.window":
			res.windowsA++
			if b <= a || int64(a) <= lastStartA {
				res.nonAdvancing = fmt.Sprintf("pass A window [%d,%d) after a window starting at %d", a, b, lastStartA)
				triggerStop()
			}
			lastStartA = int64(a)
		case "B.window":
			res.windowsB++
			if b <= a || int64(a) <= lastStartB {
				res.nonAdvancing = fmt.Sprintf("pass B window [%d,%d) after a window starting at %d", a, b, lastStartB)
				triggerStop()
			}
			lastStartB = int64(a)
		case "beforeRemoveA":
			if ref != nil {
				res.mapAAtRemove = vfCheckMapA(mdb.filePathA, ref, pkHash, uint64(1)<<uint(mdb.bl), "map A before its removal")
			}
		}
		if plan.Stop != nil && plan.Stop.Point == name && counts[name] == plan.Stop.Nth {
			triggerStop()
		}
		if plan.WriteFault != nil && !res.faultFired && plan.WriteFault.Point == name && counts[name] == plan.WriteFault.Nth {
			hm := &mdb.HashMapB.HashMap
			if name == "A.scanned" && mdb.HashMapA != nil {
				hm = &mdb.HashMapA.HashMap
			}
			if hm.data != nil {
				if ro, err := os.Open(hm.data.Name()); err == nil {
					swapped, orig, roHandle = hm, hm.data, ro
					hm.data = ro
					res.faultFired = true
				}
			}
		}
	}
	defer func() { VerifCacheCap, VerifPoint = nil, nil }()
	res.plotErr = <-mdb.Plot()
	mdb.wg.Wait()
	if swapped != nil {
		swapped.data = orig
		roHandle.Close()
	}
	return res
}

func vfFileHash(path string) string {
	b, err := os.ReadFile(path)
	if err != nil {
		return "missing"
	}
	// the table only (header carries the checkpoint, equal in completed plots anyway)
	if len(b) > PosProofData {
		b = b[PosProofData:]
	} else {
		b = nil
	}
	b = bytes.TrimRight(b, "\x00") // sparse tail
	h := sha256.Sum256(b)
	return fmt.Sprintf("%x", h[:8])
}
