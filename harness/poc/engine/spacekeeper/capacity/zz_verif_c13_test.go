package capacity

// C13 — the space keeper never deadlocks or panics (DESIGN.md §4 C13).
// Generated concurrent programs: 2-6 callers issue control requests and queries (including floods of requests
// around the 1024-slot hand-off channel) while a scripted plot is held or plots complete/abort on their own, the
// keeper is stopped (optionally inside the window between popping a request and starting its plot) and started
// again. Oracle: once all gates are open and every scripted plot has an outcome, every call has returned,
// Stop() has returned, nothing panicked and the goroutine count is back at its baseline. A pending call is only
// a verdict together with the stacks of the blocked keeper goroutines.

import (
	"context"
	"fmt"
	"runtime"
	"sort"
	"strings"
	"sync"
	"sync/atomic"
	"testing"
	"time"

	"github.com/massnetorg/mass-core/poc/pocutil"
	"github.com/massnetorg/mass-core/pocec"
	"massnet.org/mass/config"
	"massnet.org/mass/poc/engine"

	"pgregory.net/rapid"
	"verif/vlib"
)

type vfC13Op struct {
	K string `json:"k"` // plot mine stop remove delete ids infos proofs bulk:<a> flood:<a>
	S int    `json:"s"`
	N int    `json:"n"` // flood size / flags
}

type vfC13Case struct {
	N          int         `json:"n"`
	Plotted    []bool      `json:"plotted"`
	Hold       bool        `json:"hold"`    // hold the first plot (scripted) until all callers are under way
	Outcome    string      `json:"outcome"` // outcome of held / automatic plots: complete | abort
	Callers    [][]vfC13Op `json:"callers"`
	StopWindow string      `json:"stopWindow"` // "" | popped | step1 : stop the keeper while the plotter is parked there
	Restarts   int         `json:"restarts"`   // stop/start cycles while the callers run
	Fast       bool        `json:"fast"`       // scripted plots end without any delay
}

func vfGenC13(t *rapid.T) vfC13Case {
	c := vfC13Case{N: rapid.IntRange(1, 3).Draw(t, "n"), Hold: rapid.Bool().Draw(t, "hold"), Outcome: rapid.SampledFrom([]string{"complete", "complete", "abort"}).Draw(t, "outcome"),
		StopWindow: rapid.SampledFrom([]string{"", "", "", "popped", "step1"}).Draw(t, "window"), Restarts: rapid.IntRange(0, 2).Draw(t, "restarts"), Fast: rapid.Bool().Draw(t, "fast")}
	for i := 0; i < c.N; i++ {
		c.Plotted = append(c.Plotted, rapid.IntRange(0, 3).Draw(t, "plotted") == 0)
	}
	nc := rapid.IntRange(2, 6).Draw(t, "callers")
	kinds := []string{"plot", "plot", "mine", "mine", "stop", "stop", "remove", "delete", "ids", "infos", "proofs", "bulk:plot", "bulk:mine", "bulk:stop", "flood:plot", "flood:mine", "churn", "churn", "reader", "readers"}
	for i := 0; i < nc; i++ {
		var ops []vfC13Op
		for j := rapid.IntRange(1, 8).Draw(t, "nops"); j > 0; j-- {
			op := vfC13Op{K: rapid.SampledFrom(kinds).Draw(t, "kind"), S: rapid.IntRange(0, c.N-1).Draw(t, "space"), N: rapid.IntRange(1, 15).Draw(t, "flags")}
			if op.K == "flood:plot" || op.K == "flood:mine" {
				op.N = rapid.SampledFrom([]int{1, 7, 64, 1020, 1024, 1025, 1100, 2500}).Draw(t, "flood")
			}
			if op.K == "churn" {
				op.N = rapid.SampledFrom([]int{20, 200, 1000}).Draw(t, "churn")
			}
			if op.K == "readers" {
				op.N = rapid.SampledFrom([]int{8, 33, 64, 129}).Draw(t, "readers") // around and above the worker pool size
			}
			ops = append(ops, op)
		}
		c.Callers = append(c.Callers, ops)
	}
	return c
}

func vfC13Run(c vfC13Case, ctx *vlib.Ctx) *vlib.Failure {
	vfSetup()
	baseline := runtime.NumGoroutine()
	env := &vfFakeEnv{dbs: map[string]*vfFakeDB{}, prePlotted: map[string]bool{}, plotStarted: make(chan string, 4096)}
	restore := vfInstallFake(env)
	defer restore()
	wallet := &vfFakeWallet{}
	for i := 0; i < c.N; i++ {
		b := make([]byte, 32)
		b[0], b[31] = 0x09, byte(i+1)
		_, pk := pocec.PrivKeyFromBytes(pocec.S256(), b)
		if c.Plotted[i] {
			env.prePlotted[vfSidOf(pk, 24)] = true
		}
	}
	cfg := &config.Config{Miner: config.DefaultMiner()}
	cfg.Miner.ProofDir = []string{vfScratchDir()}
	cfg.Miner.PrivatePassword = ""
	ski, err := NewSpaceKeeperV1(cfg, wallet)
	if err != nil {
		return vlib.Failf("harness:keeper", "%v", err)
	}
	sk := ski.(*SpaceKeeper)
	defer sk.workerPool.Release()
	infos, err := sk.ConfigureByBitLength(map[int]int{24: c.N}, false, false)
	if err != nil {
		return vlib.Failf("harness:configure", "%v", err)
	}
	var sids []string
	for _, in := range infos {
		sids = append(sids, in.SpaceID)
	}
	sort.Strings(sids)
	sch := &vfSched{sk: sk, events: make(chan vfGateEvent, 4), plState: "stopped", plotStarted: env.plotStarted}
	uninstall := sch.install()
	defer uninstall()
	atomic.StoreInt32(&sch.free, 1) // gates open unless a window scenario asks otherwise
	if !c.Hold {
		env.autoOutcome = c.Outcome
	}
	env.autoFast = c.Fast
	if err := sk.Start(); err != nil {
		return vlib.Failf("start-failed", "%v", err)
	}
	flood := false
	// ---- stop-window scenario: the keeper is stopped while the plotter sits between popping a request and plotting
	if c.StopWindow != "" {
		var reg string
		for i, sid := range sids {
			if !c.Plotted[i%len(c.Plotted)] {
				reg = sid
			}
		}
		_ = reg
		target := ""
		for _, in := range infos {
			if in.State == engine.Registered {
				target = in.SpaceID
			}
		}
		if target != "" {
			atomic.StoreInt32(&sch.free, 0)
			if err := sk.ActOnWorkSpace(target, engine.Plot); err != nil {
				return vlib.Failf("action-refused", "plot(%s): %v", target, err)
			}
			// the plotter may have passed the idle gate already (gates were open); wait for "popped"
			for i := 0; i < 4; i++ {
				if f := sch.waitEvent("stop-window"); f != nil {
					return f
				}
				if sch.parked.name == c.StopWindow {
					break
				}
				sch.release()
			}
			stopDone := make(chan error, 1)
			go func() { stopDone <- sk.Stop() }()
			time.Sleep(2 * time.Millisecond) // let Stop close the quit channel and the monitor react
			endFree := sch.freeRun()
			select {
			case <-stopDone:
			case <-time.After(10 * time.Second):
				endFree()
				return vfBlockedVerdict("keeper-stop-blocked:in-window-before-plot", fmt.Sprintf("SpaceKeeper.Stop() issued while the plotter was parked at %q (request popped, plot not yet started) did not return: the monitor's StopPlot found nothing to stop and the plot started afterwards", c.StopWindow))
			}
			endFree()
			atomic.StoreInt32(&sch.free, 1)
			ctx.Label("stop-window:" + c.StopWindow)
			if err := sk.Start(); err != nil {
				return vlib.Failf("start-failed", "restart after window stop: %v", err)
			}
		}
	}
	// ---- hold: put one space into a scripted plot that stays open
	held := false
	if c.Hold {
		for _, in := range infos {
			if in.State == engine.Registered {
				if err := sk.ActOnWorkSpace(in.SpaceID, engine.Plot); err == nil {
					select {
					case <-env.plotStarted:
						held = true
					case <-time.After(5 * time.Second):
					}
				}
				break
			}
		}
	}
	// ---- callers
	var wg sync.WaitGroup
	var pmu sync.Mutex
	var panicked *vlib.Failure
	pending := int32(0)
	for ci, ops := range c.Callers {
		wg.Add(1)
		atomic.AddInt32(&pending, 1)
		go func(ci int, ops []vfC13Op) {
			defer wg.Done()
			defer atomic.AddInt32(&pending, -1)
			defer func() {
				if r := recover(); r != nil {
					buf := make([]byte, 8192)
					buf = buf[:runtime.Stack(buf, false)]
					pmu.Lock()
					if panicked == nil {
						panicked = vlib.RepoPanicSig(r, buf)
					}
					pmu.Unlock()
				}
			}()
			for _, op := range ops {
				sid := sids[op.S%len(sids)]
				switch {
				case op.K == "ids":
					sk.WorkSpaceIDs(engine.WorkSpaceStateFlags(op.N))
				case op.K == "infos":
					sk.WorkSpaceInfos(engine.WorkSpaceStateFlags(op.N))
				case op.K == "proofs":
					sk.GetProofs(context.Background(), engine.SFMining, pocutil.Hash{2}, false)
				case op.K == "reader" || op.K == "readers":
					// proof readers drained to EOF, one or many in flight at once; the context ends with the request
					n := 1
					if op.K == "readers" {
						n = op.N
					}
					var rw sync.WaitGroup
					for i := 0; i < n; i++ {
						rw.Add(1)
						go func(i int) {
							defer rw.Done()
							cx, cancel := context.WithCancel(context.Background())
							defer cancel()
							var r engine.ProofReader
							var err error
							if i%3 == 0 {
								r, err = sk.GetProofReader(cx, sid, pocutil.Hash{3}, false)
							} else {
								r, err = sk.GetProofsReader(cx, engine.SFAll, pocutil.Hash{4}, false)
							}
							if err != nil || r == nil {
								return
							}
							for {
								if _, err := r.Read(); err != nil {
									return
								}
							}
						}(i)
					}
					rw.Wait()
				case len(op.K) > 5 && op.K[:5] == "bulk:":
					sk.ActOnWorkSpaces(engine.WorkSpaceStateFlags(op.N), vfActionOf(op.K[5:]))
				case op.K == "churn":
					// request and cancel in a tight loop: the plotter sees its queue filled and emptied under its feet
					for i := 0; i < op.N; i++ {
						sk.ActOnWorkSpace(sid, engine.Plot)
						sk.ActOnWorkSpace(sid, engine.Stop)
					}
				case len(op.K) > 6 && op.K[:6] == "flood:":
					for i := 0; i < op.N; i++ {
						sk.ActOnWorkSpace(sid, vfActionOf(op.K[6:]))
					}
				default:
					sk.ActOnWorkSpace(sid, vfActionOf(op.K))
				}
			}
		}(ci, ops)
	}
	for _, ops := range c.Callers {
		for _, op := range ops {
			if len(op.K) > 6 && op.K[:6] == "flood:" && op.N > 1024 {
				flood = true
			}
		}
	}
	// keeper restarts while the callers run
	restartDone := make(chan *vlib.Failure, 1)
	go func() {
		for r := 0; r < c.Restarts; r++ {
			time.Sleep(time.Duration(300+200*r) * time.Microsecond)
			err, blocked, _ := vfCall(func() error { return sk.Stop() })
			if blocked {
				// a held plot is stopped by the monitor; being blocked here with everything released below is judged later
				restartDone <- vfBlockedVerdict("keeper-stop-blocked", "SpaceKeeper.Stop() during concurrent requests did not return")
				return
			}
			_ = err
			sk.Start()
		}
		restartDone <- nil
	}()
	// give the callers time to get under way (or to block on the held plot), then give every plot an outcome
	time.Sleep(3 * time.Millisecond)
	env.autoOutcome = c.Outcome
	for _, d := range env.dbs {
		d.mu.Lock()
		if d.plotting {
			select {
			case d.outcome <- c.Outcome:
			default:
			}
		}
		d.mu.Unlock()
	}
	done := make(chan struct{})
	go func() { wg.Wait(); close(done) }()
	select {
	case <-done:
	case <-time.After(15 * time.Second):
		return vfBlockedVerdict("api-calls-blocked", fmt.Sprintf("%d caller(s) still pending although every plot has an outcome and all gates are open (held=%v, flood>1024=%v)", atomic.LoadInt32(&pending), held, flood))
	}
	if f := <-restartDone; f != nil {
		return f
	}
	pmu.Lock()
	pf := panicked
	pmu.Unlock()
	if pf != nil {
		pf.Sig = "keeper-" + pf.Sig
		return pf
	}
	if sk.Started() {
		err, blocked, _ := vfCall(func() error { return sk.Stop() })
		if blocked {
			return vfBlockedVerdict("keeper-stop-blocked", "final SpaceKeeper.Stop() did not return")
		}
		_ = err
	}
	// goroutines return to the baseline (allowing the harness' own helpers to wind down)
	deadline := time.Now().Add(5 * time.Second)
	for runtime.NumGoroutine() > baseline+2 && time.Now().Before(deadline) {
		time.Sleep(time.Millisecond)
	}
	if n := runtime.NumGoroutine(); n > baseline+2 {
		buf := make([]byte, 1<<19)
		buf = buf[:runtime.Stack(buf, true)]
		// summary first (the full dump is long): goroutines grouped by state and innermost function
		groups := map[string]int{}
		for _, g := range strings.Split(string(buf), "\n\n") {
			ls := strings.Split(g, "\n")
			if len(ls) < 2 {
				continue
			}
			st := ls[0]
			if i := strings.Index(st, "["); i >= 0 {
				st = st[i:]
			}
			fn := ls[1]
			if i := strings.LastIndex(fn, "("); i > 0 {
				fn = fn[:i]
			}
			groups[st+" "+fn]++
		}
		var sum []string
		for k, v := range groups {
			sum = append(sum, fmt.Sprintf("%dx %s", v, k))
		}
		sort.Strings(sum)
		listed := 0
		for _, v := range groups {
			listed += v
		}
		if listed <= baseline+2 {
			// the goroutines counted a moment ago were on their way out (idle pool workers being purged): the
			// dump, which is what a leak would have to show up in, has no more than the baseline
			ctx.Label("goroutines-exiting-at-deadline")
		} else {
			return vlib.Failf("goroutines-leaked", "%d goroutines after Stop (%d in the dump), %d before the case: %s\n%s", n, listed, baseline, strings.Join(sum, "; "), buf)
		}
	}
	ctx.LabelN("callers", len(c.Callers))
	if flood {
		ctx.Label("flood>1024")
	}
	if held {
		ctx.Label("held-plot")
	}
	if (len(c.Callers) >= 2 && held) || flood || c.StopWindow != "" {
		ctx.NonTrivial()
	}
	return nil
}

var vfC13Spec = vlib.Spec[vfC13Case]{
	Prop: "C13", Name: "keeper-concurrent", NoShrink: true,
	Rule: "1-3 workspaces on the scripted backend; 2-6 concurrent callers with 1-8 operations each from {plot, mine, stop, remove, delete, queries, GetProofs, bulk actions, floods of k in {1..64, 1020..1100, 2500} identical requests (hand-off channel capacity 1024)}; one scripted plot held open while the callers run or plots finishing on their own (complete/abort); keeper stop in the window between popping a request and starting its plot (gate H3); 0-2 stop/start cycles during the run; oracle after every plot has been given an outcome and all gates are open: all calls returned, Stop() returned, no panic (recover in every caller, process death otherwise), goroutines back to baseline; non-trivial = >=2 callers overlapping a held plot, or a flood >1024, or a stop-window scenario; distinct = distinct case JSON",
	Gen:  vfGenC13, Run: vfC13Run,
}

func TestVerif_C13(t *testing.T) { vlib.Both(t, vfC13Spec) }
