package capacity

// Shared keeper harness (DESIGN.md §4 C11, C15, C06(iii), C05 keeper path): a real wallet (LevelDB store +
// KeystoreManagerForPoC), real massdb.v1 header files (creation writes only the 4 KiB header), the real
// NewSpaceKeeperV1 constructor.

import (
	"encoding/hex"
	"fmt"
	"os"
	"path/filepath"
	"sort"
	"strings"
	"sync"

	"github.com/massnetorg/mass-core/logging"
	"github.com/massnetorg/mass-core/poc"
	"github.com/massnetorg/mass-core/pocec"
	"massnet.org/mass/config"
	"massnet.org/mass/poc/engine"
	walletdb "massnet.org/mass/poc/wallet/db"
	ldb "massnet.org/mass/poc/wallet/db/ldb"
	"massnet.org/mass/poc/wallet/keystore"
)

var vfOnce sync.Once

func vfSetup() {
	vfOnce.Do(func() {
		base := os.Getenv("TMPDIR")
		if base == "" {
			base = os.TempDir()
		}
		d := filepath.Join(base, fmt.Sprintf("vfkeeperlog-%d", os.Getpid()))
		os.MkdirAll(d, 0o755)
		logging.Init(d, "vf.log", "error", 0, true)
	})
}

const (
	vfPub  = "Public1#pass"
	vfPriv = "Alpha1#passw"
)

type vfWalletEnv struct {
	root  string
	store walletdb.DB
	kmc   *keystore.KeystoreManagerForPoC
}

func vfNewWallet(root string, seedByte byte) (*vfWalletEnv, error) {
	store, err := ldb.CreateDB(filepath.Join(root, "keystore"))
	if err != nil {
		return nil, err
	}
	kmc, err := keystore.NewKeystoreManagerForPoC(store, []byte(vfPub), config.ChainParams)
	if err != nil {
		store.Close()
		return nil, err
	}
	seed := make([]byte, 32)
	seed[0], seed[5] = seedByte, 0xca
	if _, err := kmc.NewKeystore([]byte(vfPriv), seed, "", config.ChainParams, &keystore.ScryptOptions{N: 16, R: 8, P: 1}); err != nil {
		store.Close()
		return nil, err
	}
	if err := kmc.Unlock([]byte(vfPriv)); err != nil {
		store.Close()
		return nil, err
	}
	return &vfWalletEnv{root: root, store: store, kmc: kmc}, nil
}

func (w *vfWalletEnv) close() { w.store.Close() }

// externalCount returns the number of external keys the wallet has issued (its plot key counter).
func (w *vfWalletEnv) externalCount() int {
	n := 0
	for _, am := range w.kmc.GetManagedAddrManager() {
		e, _ := am.CountAddresses()
		n += e
	}
	return n
}

func vfNewKeeper(w *vfWalletEnv, dirs []string) (*SpaceKeeper, error) {
	cfg := &config.Config{Miner: config.DefaultMiner()}
	cfg.Miner.ProofDir = dirs
	cfg.Miner.PrivatePassword = "" // no automatic configuration in the constructor
	ski, err := NewSpaceKeeperV1(cfg, w.kmc)
	if err != nil {
		return nil, err
	}
	return ski.(*SpaceKeeper), nil
}

func vfCloseKeeper(sk *SpaceKeeper) {
	if sk == nil {
		return
	}
	for _, ws := range sk.workSpaceIndex[allState].Items() {
		ws.db.Close()
	}
	sk.workerPool.Release()
}

type vfFileInfo struct {
	Name string
	Size int64
	Head string // hex of the first 128 header bytes
}

// vfListDir lists plot directories: name, size, header digest.
func vfListDir(dirs []string) map[string]vfFileInfo {
	out := map[string]vfFileInfo{}
	for _, d := range dirs {
		fis, err := os.ReadDir(d)
		if err != nil {
			continue
		}
		for _, fi := range fis {
			p := filepath.Join(d, fi.Name())
			st, err := os.Stat(p)
			if err != nil || st.IsDir() {
				continue
			}
			head := make([]byte, 128)
			if f, err := os.Open(p); err == nil {
				n, _ := f.Read(head)
				head = head[:n]
				f.Close()
			}
			out[p] = vfFileInfo{Name: fi.Name(), Size: st.Size(), Head: hex.EncodeToString(head)}
		}
	}
	return out
}

func vfDirDiff(a, b map[string]vfFileInfo) (added, removed, changed []string) {
	for p, x := range b {
		if y, ok := a[p]; !ok {
			added = append(added, p)
		} else if x != y {
			changed = append(changed, p)
		}
	}
	for p := range a {
		if _, ok := b[p]; !ok {
			removed = append(removed, p)
		}
	}
	sort.Strings(added)
	sort.Strings(removed)
	sort.Strings(changed)
	return
}

func vfPlotSize(bl int) uint64 { return poc.ProofTypeDefault.PlotSize(bl) }

func vfSidOf(pk *pocec.PublicKey, bl int) string {
	return hex.EncodeToString(pk.SerializeCompressed()) + "-" + fmt.Sprint(bl)
}

func vfInfoKey(i engine.WorkSpaceInfo) string {
	return fmt.Sprintf("%s ord=%d bl=%d state=%s", i.SpaceID, i.Ordinal, i.BitLength, i.State)
}

func vfIsPlotFileName(n string) bool { return strings.HasSuffix(strings.ToLower(n), ".massdb") }
