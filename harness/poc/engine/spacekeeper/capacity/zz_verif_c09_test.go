package capacity

// C09 — the workspace lifecycle follows the documented state machine (DESIGN.md §4 C09, §3.3, §3.4).
// A scripted plot-DB backend replaces massdb.v1 through the exported registry; hook H3 parks the plotter goroutine
// at every step until the generated schedule releases it. The schedule is a sequence of API actions (single and
// bulk), plotter releases, plot outcomes and keeper start/stop; after every step the keeper is compared with
// the invariants and the documented transition relation.

import (
	"context"
	"errors"
	"fmt"
	"os"
	"runtime"
	"sort"
	"strings"
	"sync"
	"sync/atomic"
	"testing"
	"time"

	"github.com/massnetorg/mass-core/poc"
	"github.com/massnetorg/mass-core/poc/pocutil"
	"github.com/massnetorg/mass-core/pocec"
	"massnet.org/mass/config"
	"massnet.org/mass/poc/engine"
	"massnet.org/mass/poc/engine/massdb"

	"pgregory.net/rapid"
	"verif/vlib"
)

// ---- scripted plot DB -----------------------------------------------------------------------------------

type vfFakeDB struct {
	env      *vfFakeEnv
	pk       *pocec.PublicKey
	bl       int
	mu       sync.Mutex
	plotted  bool
	plotting bool
	stopCh   chan struct{}
	outcome  chan string // "complete" | "abort"
	done     chan struct{}
	deleted  bool
	proofs   int32
}

type vfFakeEnv struct {
	mu          sync.Mutex
	dbs         map[string]*vfFakeDB // by pubkey hex
	prePlotted  map[string]bool
	concurrent  int32
	maxConc     int32
	plotStarted chan string
	deletes     int32
	autoOutcome string // "" = wait for the schedule; else outcome applied at once (free-running mode)
	autoFast    bool   // automatic outcomes without any delay
}

func (d *vfFakeDB) Type() string { return typeMassDBV1 }
func (d *vfFakeDB) Close() error { <-d.StopPlot(); return nil }
func (d *vfFakeDB) Plot() chan error {
	res := make(chan error, 1)
	d.mu.Lock()
	if d.plotting {
		d.mu.Unlock()
		res <- errors.New("already plotting")
		return res
	}
	if d.plotted {
		d.mu.Unlock()
		res <- nil
		return res
	}
	d.plotting = true
	d.stopCh = make(chan struct{})
	d.outcome = make(chan string, 1)
	d.done = make(chan struct{})
	stop, outcome, done := d.stopCh, d.outcome, d.done
	d.mu.Unlock()
	if c := atomic.AddInt32(&d.env.concurrent, 1); c > atomic.LoadInt32(&d.env.maxConc) {
		atomic.StoreInt32(&d.env.maxConc, c)
	}
	go func() {
		select {
		case d.env.plotStarted <- vfSidOf(d.pk, d.bl):
		default:
		}
		auto := d.env.autoOutcome
		var oc string
		if auto != "" {
			select {
			case <-stop:
				oc = "abort"
			case <-func() <-chan time.Time {
				if d.env.autoFast {
					c := make(chan time.Time, 1)
					c <- time.Time{}
					return c
				}
				return time.After(200 * time.Microsecond)
			}():
				oc = auto
			}
		} else {
			select {
			case <-stop:
				oc = "abort"
			case oc = <-outcome:
			}
		}
		d.mu.Lock()
		if oc == "complete" {
			d.plotted = true
		}
		d.plotting = false
		d.mu.Unlock()
		atomic.AddInt32(&d.env.concurrent, -1)
		close(done)
		res <- nil
	}()
	return res
}
func (d *vfFakeDB) StopPlot() chan error {
	res := make(chan error, 1)
	d.mu.Lock()
	if !d.plotting {
		d.mu.Unlock()
		res <- nil
		return res
	}
	stop, done := d.stopCh, d.done
	d.mu.Unlock()
	go func() {
		func() {
			defer func() { recover() }() // several stoppers: closing twice is the backend's business, not under test here
			close(stop)
		}()
		<-done
		res <- nil
	}()
	return res
}
func (d *vfFakeDB) Ready() bool              { d.mu.Lock(); defer d.mu.Unlock(); return d.plotted }
func (d *vfFakeDB) BitLength() int           { return d.bl }
func (d *vfFakeDB) PubKeyHash() pocutil.Hash { return pocutil.PubKeyHash(d.pk) }
func (d *vfFakeDB) PubKey() *pocec.PublicKey { return d.pk }
func (d *vfFakeDB) GetProof(challenge pocutil.Hash, filter bool) (*poc.DefaultProof, error) {
	atomic.AddInt32(&d.proofs, 1)
	return nil, errors.New("scripted backend has no proofs")
}
func (d *vfFakeDB) Progress() (bool, bool, float64) {
	d.mu.Lock()
	defer d.mu.Unlock()
	if d.plotted {
		return true, true, 100
	}
	return false, false, 10
}
func (d *vfFakeDB) Delete() chan error {
	res := make(chan error, 1)
	d.mu.Lock()
	defer d.mu.Unlock()
	if d.plotting {
		res <- errors.New("already plotting")
		return res
	}
	d.deleted = true
	atomic.AddInt32(&d.env.deletes, 1)
	res <- nil
	return res
}

var vfBackendMu sync.Mutex

// vfInstallFake patches the massdb.v1 entry of the exported backend registry and returns a restore function.
func vfInstallFake(env *vfFakeEnv) func() {
	vfBackendMu.Lock()
	idx := -1
	for i, b := range massdb.DBBackendList {
		if b.Typ == typeMassDBV1 {
			idx = i
		}
	}
	if idx < 0 {
		massdb.DBBackendList = append(massdb.DBBackendList, massdb.DBBackend{Typ: typeMassDBV1})
		idx = len(massdb.DBBackendList) - 1
	}
	old := massdb.DBBackendList[idx]
	get := func(create bool, args ...interface{}) (massdb.MassDB, error) {
		pk := args[2].(*pocec.PublicKey)
		bl := args[3].(int)
		key := vfSidOf(pk, bl)
		env.mu.Lock()
		defer env.mu.Unlock()
		if d, ok := env.dbs[key]; ok && !d.deleted {
			return d, nil
		}
		if !create {
			return nil, massdb.ErrDBDoesNotExist
		}
		d := &vfFakeDB{env: env, pk: pk, bl: bl, plotted: env.prePlotted[key]}
		env.dbs[key] = d
		return d, nil
	}
	massdb.DBBackendList[idx].OpenDB = func(args ...interface{}) (massdb.MassDB, error) { return get(false, args...) }
	massdb.DBBackendList[idx].CreateDB = func(args ...interface{}) (massdb.MassDB, error) { return get(true, args...) }
	return func() {
		massdb.DBBackendList[idx] = old
		vfBackendMu.Unlock()
	}
}

// ---- scripted wallet -----------------------------------------------------------------------------------

type vfFakeWallet struct {
	mu   sync.Mutex
	keys []*pocec.PublicKey
}

func (w *vfFakeWallet) GenerateNewPublicKey() (*pocec.PublicKey, uint32, error) {
	w.mu.Lock()
	defer w.mu.Unlock()
	b := make([]byte, 32)
	b[0], b[31] = 0x09, byte(len(w.keys)+1)
	_, pk := pocec.PrivKeyFromBytes(pocec.S256(), b)
	w.keys = append(w.keys, pk)
	return pk, uint32(len(w.keys) - 1), nil
}
func (w *vfFakeWallet) GetPublicKeyOrdinal(pk *pocec.PublicKey) (uint32, bool) {
	w.mu.Lock()
	defer w.mu.Unlock()
	for i, k := range w.keys {
		if k.IsEqual(pk) {
			return uint32(i), true
		}
	}
	return 0, false
}
func (w *vfFakeWallet) SignMessage(*pocec.PublicKey, []byte) (*pocec.Signature, error) {
	return nil, errors.New("scripted wallet")
}
func (w *vfFakeWallet) Unlock([]byte) error { return nil }
func (w *vfFakeWallet) Lock()               {}
func (w *vfFakeWallet) IsLocked() bool      { return false }

// ---- gate scheduler ------------------------------------------------------------------------------------

type vfGateEvent struct {
	name, sid string
	release   chan struct{}
}

type vfSched struct {
	sk          *SpaceKeeper
	events      chan vfGateEvent
	free        int32 // 1 = gates are open (free running)
	parked      *vfGateEvent
	plState     string // "gate" | "select" | "plot" | "stopped"
	plotStarted chan string
}

var vfHookOwner sync.Mutex

func (s *vfSched) install() func() {
	vfHookOwner.Lock()
	VerifPlotterEvent = func(sk *SpaceKeeper, name, sid string) {
		if sk != s.sk || atomic.LoadInt32(&s.free) == 1 {
			return
		}
		ev := vfGateEvent{name, sid, make(chan struct{})}
		s.events <- ev
		<-ev.release
	}
	return func() {
		VerifPlotterEvent = nil
		vfHookOwner.Unlock()
	}
}

// waitEvent waits for the plotter to reach its next gate. A plotter that does not arrive although nothing it
// could wait for is outstanding is reported with all goroutine stacks (never on the timer alone).
func (s *vfSched) waitEvent(where string) *vlib.Failure {
	select {
	case ev := <-s.events:
		s.parked = &ev
		s.plState = "gate"
		return nil
	case <-time.After(10 * time.Second):
		return vfBlockedVerdict("plotter-stuck", where+": the plotter did not reach its next step")
	}
}

func vfBlockedVerdict(sig, msg string) *vlib.Failure {
	buf := make([]byte, 1<<18)
	buf = buf[:runtime.Stack(buf, true)]
	var repo []string
	for _, g := range strings.Split(string(buf), "\n\n") {
		if strings.Contains(g, "spacekeeper/capacity.(*SpaceKeeper)") && (strings.Contains(g, "chan send") || strings.Contains(g, "sync.Mutex.Lock") || strings.Contains(g, "RWMutex") || strings.Contains(g, "semacquire") || strings.Contains(g, "chan receive") || strings.Contains(g, "select")) {
			repo = append(repo, g)
		}
	}
	return vlib.Failf(sig, "%s; blocked keeper goroutines:\n%s", msg, strings.Join(repo, "\n\n"))
}

// freeRun opens all gates (also for events already queued) until the returned function is called.
func (s *vfSched) freeRun() func() {
	atomic.StoreInt32(&s.free, 1)
	s.release()
	stop := make(chan struct{})
	done := make(chan struct{})
	go func() {
		defer close(done)
		for {
			select {
			case ev := <-s.events:
				close(ev.release)
			case <-stop:
				for {
					select {
					case ev := <-s.events:
						close(ev.release)
					default:
						return
					}
				}
			}
		}
	}()
	return func() {
		close(stop)
		<-done
		atomic.StoreInt32(&s.free, 0)
	}
}

func (s *vfSched) release() {
	if s.parked != nil {
		close(s.parked.release)
		s.parked = nil
	}
}

// advance releases the plotter from its gate and (when the next gate is certain to come) waits for it.
func (s *vfSched) advance(where string) *vlib.Failure {
	if s.parked == nil {
		return nil
	}
	name := s.parked.name
	s.release()
	switch name {
	case "idle":
		s.plState = "select"
		return nil
	case "step1":
		// the plotter now calls ws.Plot(): either the scripted plot starts (and blocks until an outcome is
		// scheduled) or Plot returns at once and the plotter shows up at its next gate
		select {
		case <-s.plotStarted:
			s.plState = "plot"
			return nil
		case ev := <-s.events:
			s.parked, s.plState = &ev, "gate"
			return nil
		case <-time.After(10 * time.Second):
			return vfBlockedVerdict("plotter-stuck", where+": the plotter neither started the plot nor reached its next step")
		}
	case "exit":
		s.plState = "stopped"
		return nil
	}
	return s.waitEvent(where)
}

// call runs an API call with a watchdog; blocked=true means it is still pending (legitimately or not — the
// caller decides).
func vfCall(f func() error) (err error, blocked bool, done chan error) {
	done = make(chan error, 1)
	go func() { done <- f() }()
	select {
	case err = <-done:
		return err, false, done
	case <-time.After(10 * time.Second):
		return nil, true, done
	}
}

// ---- case ------------------------------------------------------------------------------------------------

type vfC09Step struct {
	K     string `json:"k"` // plot mine stop remove delete | bulk:<action> | advance | complete | abort | stopKeeper | startKeeper | proofs
	S     int    `json:"s"`
	Flags int    `json:"flags"`
}

type vfC09Case struct {
	N       int         `json:"n"`       // workspaces
	Plotted []bool      `json:"plotted"` // initially ready
	Steps   []vfC09Step `json:"steps"`
}

func vfGenC09(t *rapid.T) vfC09Case {
	c := vfC09Case{N: rapid.IntRange(1, 3).Draw(t, "n")}
	for i := 0; i < c.N; i++ {
		c.Plotted = append(c.Plotted, rapid.IntRange(0, 3).Draw(t, "plotted") == 0)
	}
	n := rapid.IntRange(1, 22).Draw(t, "nsteps")
	if rapid.IntRange(0, 9).Draw(t, "startFirst") < 7 {
		// most schedules start the keeper first and let the plotter reach its waiting position
		c.Steps = append(c.Steps, vfC09Step{K: "startKeeper"}, vfC09Step{K: "advance"})
	}
	kinds := []string{"plot", "plot", "mine", "mine", "stop", "stop", "remove", "delete", "bulk:plot", "bulk:mine", "bulk:stop", "bulk:remove", "advance", "advance", "advance", "advance", "advance", "advance", "advance", "advance", "advance", "advance", "complete", "complete", "complete", "abort", "stopKeeper", "startKeeper", "proofs", "proofs", "reconfig"}
	for i := 0; i < n; i++ {
		c.Steps = append(c.Steps, vfC09Step{K: rapid.SampledFrom(kinds).Draw(t, "kind"), S: rapid.IntRange(0, c.N-1).Draw(t, "space"), Flags: rapid.IntRange(1, 15).Draw(t, "flags")})
	}
	return c
}

type vfC09Model struct {
	state   map[string]engine.WorkSpaceState
	intent  map[string]string // outstanding request: "" | plot | mine
	using   map[string]bool
	deleted map[string]bool
	plotted map[string]bool
}

func vfActionOf(k string) engine.ActionType {
	switch k {
	case "plot":
		return engine.Plot
	case "mine":
		return engine.Mine
	case "stop":
		return engine.Stop
	case "remove":
		return engine.Remove
	}
	return engine.Delete
}

func vfC09Run(c vfC09Case, ctx *vlib.Ctx) *vlib.Failure {
	vfSetup()
	env := &vfFakeEnv{dbs: map[string]*vfFakeDB{}, prePlotted: map[string]bool{}, plotStarted: make(chan string, 64)}
	restore := vfInstallFake(env)
	defer restore()
	wallet := &vfFakeWallet{}
	// the scripted backend decides the initial state: pre-register which keys start plotted
	for i := 0; i < c.N; i++ {
		b := make([]byte, 32)
		b[0], b[31] = 0x09, byte(i+1)
		_, pk := pocec.PrivKeyFromBytes(pocec.S256(), b)
		if c.Plotted[i] {
			env.prePlotted[vfSidOf(pk, 24)] = true
		}
	}
	cfg := &config.Config{Miner: config.DefaultMiner()}
	cfg.Miner.ProofDir = []string{vfScratchDir()}
	cfg.Miner.PrivatePassword = ""
	ski, err := NewSpaceKeeperV1(cfg, wallet)
	if err != nil {
		return vlib.Failf("harness:keeper", "%v", err)
	}
	sk := ski.(*SpaceKeeper)
	defer sk.workerPool.Release()
	infos, err := sk.ConfigureByBitLength(map[int]int{24: c.N}, false, false)
	if err != nil || len(infos) != c.N {
		return vlib.Failf("harness:configure", "%v (%d spaces)", err, len(infos))
	}
	var sids []string
	m := &vfC09Model{state: map[string]engine.WorkSpaceState{}, intent: map[string]string{}, using: map[string]bool{}, deleted: map[string]bool{}, plotted: map[string]bool{}}
	for _, in := range infos {
		sids = append(sids, in.SpaceID)
		m.state[in.SpaceID] = in.State
		m.using[in.SpaceID] = true
		m.plotted[in.SpaceID] = in.State == engine.Ready
	}
	sort.Strings(sids)
	sch := &vfSched{sk: sk, events: make(chan vfGateEvent, 4), plState: "stopped", plotStarted: env.plotStarted}
	uninstall := sch.install()
	defer uninstall()
	started := false
	weak := map[string]bool{}                                    // outstanding request that a keeper stop may have dropped
	stoppedPlotting := map[string]bool{}                         // Stop returned for a space in the plotting state and nothing was asked since
	askedMine, askedPlot := map[string]bool{}, map[string]bool{} // several requests may be outstanding for one space: either may win
	interleaved, heldRequest := false, false
	lastRequester := ""
	reqCount := map[string]int{} // plot/mine requests issued since the last stop/remove/delete of the space, minus those the plotter took up

	observe := func(where string, changedBy string) *vlib.Failure {
		// consistent snapshot: every transition happens under the write lock
		sk.stateLock.RLock()
		defer sk.stateLock.RUnlock()
		plottingN := 0
		for _, sid := range sids {
			ws, ok := sk.workSpaceIndex[allState].Get(sid)
			if !ok {
				if !m.deleted[sid] {
					return vlib.Failf("inv:space-vanished", "%s: %s is no longer indexed", where, sid)
				}
				continue
			}
			in := 0
			for st := engine.FirstState; st <= engine.LastState; st++ {
				if _, ok := sk.workSpaceIndex[st].Get(sid); ok {
					in++
					if st != ws.state {
						return vlib.Failf("inv:index-state-mismatch", "%s: %s is in the %v index but its state is %v", where, sid, st, ws.state)
					}
				}
			}
			if in != 1 {
				return vlib.Failf("inv:not-exactly-one-state", "%s: %s is in %d per-state indexes (state %v)", where, sid, in, ws.state)
			}
			if ws.state == engine.Plotting {
				plottingN++
			}
			// transition relation
			old, now := m.state[sid], ws.state
			if old != now {
				if os.Getenv("VERIF_TRACE") != "" {
					fmt.Fprintf(os.Stderr, "TRACE %s: %s %v->%v intent=%q req=%d weak=%v by=%s\n", where, sid[:6], old, now, m.intent[sid], reqCount[sid], weak[sid], changedBy)
				}
				ok := false
				switch {
				case old == engine.Registered && now == engine.Plotting:
					ok = m.intent[sid] != ""
					if reqCount[sid] > 0 {
						reqCount[sid]--
					}
					if !ok {
						return vlib.Failf("stopped-space-plotted", "%s: %s went registered -> plotting although no plot/mine request is outstanding for it (a stopped space must not be plotted until asked again)", where, sid)
					}
				case old == engine.Plotting && now == engine.Ready:
					ok = m.intent[sid] == "plot" || m.intent[sid] == "" || askedPlot[sid]
					m.plotted[sid] = true
					if stoppedPlotting[sid] {
						return vlib.Failf("stopped-plot-completed", "%s: Stop(%s) returned while the space was plotting, no request was issued afterwards, yet it went plotting -> ready (the stop did not return it to registered)", where, sid)
					}
				case old == engine.Plotting && now == engine.Mining:
					ok = m.intent[sid] == "mine" || askedMine[sid]
					m.plotted[sid] = true
					if stoppedPlotting[sid] {
						return vlib.Failf("stopped-plot-completed", "%s: Stop(%s) returned while the space was plotting, yet it went plotting -> mining", where, sid)
					}
				case old == engine.Plotting && now == engine.Registered:
					ok = true
					stoppedPlotting[sid] = false
					askedMine[sid], askedPlot[sid] = false, false
					if reqCount[sid] > 0 && m.intent[sid] != "" {
						weak[sid] = true // abort or keeper stop: this request is consumed, but the space was asked more than once and the other requests may still be queued
					} else {
						m.intent[sid] = "" // stop or abort: the request is consumed, the space waits to be asked again
					}
				case old == engine.Ready && now == engine.Mining:
					ok = m.intent[sid] == "mine" || askedMine[sid]
					if !ok {
						return vlib.Failf("stopped-space-mined", "%s: %s went ready -> mining although no mine request is outstanding for it", where, sid)
					}
				case old == engine.Mining && now == engine.Ready:
					ok = changedBy == "stop:"+sid || strings.HasPrefix(changedBy, "bulk:stop")
				}
				if !ok {
					return vlib.Failf("undocumented-transition", "%s: %s went %v -> %v (outstanding request %q, step %s)", where, sid, old, now, m.intent[sid], changedBy)
				}
				m.state[sid] = now
				if now == engine.Ready || now == engine.Mining {
					if (now == engine.Ready && m.intent[sid] == "plot") || (now == engine.Mining && m.intent[sid] == "mine") {
						m.intent[sid] = "" // request fulfilled
					}
				}
			}
		}
		if plottingN > 1 || atomic.LoadInt32(&env.maxConc) > 1 {
			return vlib.Failf("inv:more-than-one-plotting", "%s: %d spaces in the plotting state, backend saw %d concurrent plots", where, plottingN, env.maxConc)
		}
		return nil
	}
	flagsAgree := func(where string) *vlib.Failure {
		all, _ := sk.WorkSpaceIDs(engine.SFAll)
		union := map[string]int{}
		for f := 1; f <= 15; f++ {
			ids, _ := sk.WorkSpaceIDs(engine.WorkSpaceStateFlags(f))
			infos, _ := sk.WorkSpaceInfos(engine.WorkSpaceStateFlags(f))
			if len(ids) != len(infos) {
				return vlib.Failf("inv:ids-infos-disagree", "%s: flags %d: %d ids, %d infos", where, f, len(ids), len(infos))
			}
			seen := map[string]bool{}
			for _, in := range infos {
				seen[in.SpaceID] = true
				if !engine.WorkSpaceStateFlags(f).Contains(in.State.Flag()) {
					return vlib.Failf("inv:flag-filter-wrong", "%s: flags %d returned %s in state %v", where, f, in.SpaceID, in.State)
				}
			}
			for _, id := range ids {
				if !seen[id] {
					return vlib.Failf("inv:ids-infos-disagree", "%s: flags %d: id %s without info", where, f, id)
				}
			}
			if f == 1 || f == 2 || f == 4 || f == 8 {
				for _, id := range ids {
					union[id]++
				}
			}
		}
		if len(union) != len(all) {
			return vlib.Failf("inv:flags-do-not-partition", "%s: single-state queries cover %d spaces, SFAll %d", where, len(union), len(all))
		}
		for id, n := range union {
			if n != 1 {
				return vlib.Failf("inv:flags-do-not-partition", "%s: %s is returned by %d single-state queries", where, id, n)
			}
		}
		return nil
	}

	dbPlotted := func(sid string) bool {
		env.mu.Lock()
		d := env.dbs[sid]
		env.mu.Unlock()
		return d != nil && d.Ready()
	}
	apiAction := func(where, kind, sid string) *vlib.Failure {
		st := m.state[sid]
		err, blocked, _ := vfCall(func() error { return sk.ActOnWorkSpace(sid, vfActionOf(kind)) })
		if blocked {
			return vfBlockedVerdict("api-call-blocked", fmt.Sprintf("%s: %s(%s) did not return", where, kind, sid))
		}
		if !m.using[sid] {
			if err == nil {
				return vlib.Failf("action-on-removed-space-accepted", "%s: %s(%s)", where, kind, sid)
			}
			return nil
		}
		switch kind {
		case "plot", "mine":
			if err != nil {
				return vlib.Failf("action-refused", "%s: %s(%s) in state %v: %v", where, kind, sid, st, err)
			}
			if st == engine.Registered || st == engine.Plotting || (kind == "mine" && st == engine.Ready) {
				m.intent[sid] = kind
				weak[sid] = !started // requests issued while the keeper is stopped sit in the hand-off channel
			}
			stoppedPlotting[sid] = false
			reqCount[sid]++
			if kind == "mine" {
				askedMine[sid] = true
			} else {
				askedPlot[sid] = true
			}
			if st == engine.Registered || st == engine.Plotting {
				lastRequester = sid
				if sch.plState == "gate" || sch.plState == "plot" {
					heldRequest = true
				}
			}
		case "stop":
			if err != nil {
				return vlib.Failf("action-refused", "%s: stop(%s) in state %v: %v", where, sid, st, err)
			}
			m.intent[sid] = ""
			reqCount[sid] = 0
			askedMine[sid], askedPlot[sid] = false, false
			if st == engine.Plotting && !dbPlotted(sid) {
				stoppedPlotting[sid] = true // (a plot that had already completed cannot be taken back: ready is fine then)
			}
		case "remove", "delete":
			if st == engine.Plotting || st == engine.Mining {
				if err == nil {
					return vlib.Failf(kind+"-accepted-while-"+st.String(), "%s: %s", where, sid)
				}
				return nil
			}
			if err != nil {
				return vlib.Failf("action-refused", "%s: %s(%s) in state %v: %v", where, kind, sid, st, err)
			}
			m.intent[sid] = ""
			reqCount[sid] = 0
			m.using[sid] = false
			if kind == "delete" {
				m.deleted[sid] = true
			}
		}
		return nil
	}

	// settle lets a woken plotter reach its next gate after a request arrived while it waited in the select
	settle := func(where string) *vlib.Failure {
		if started && sch.plState == "select" && (len(sk.newQueuedWorkSpaceCh) > 0 || !sk.queue.Empty()) {
			return sch.waitEvent(where)
		}
		if started && sch.plState == "select" {
			// the request may already have been taken out of the channel: give the plotter a moment to show up
			select {
			case ev := <-sch.events:
				sch.parked, sch.plState = &ev, "gate"
			case <-time.After(2 * time.Millisecond):
			}
		}
		return nil
	}

	for si, st := range c.Steps {
		where := fmt.Sprintf("step#%d %s", si, st.K)
		sid := sids[st.S%len(sids)]
		changedBy := st.K + ":" + sid
		switch {
		case st.K == "startKeeper":
			if !started {
				if err := sk.Start(); err != nil {
					return vlib.Failf("start-failed", "%s: %v", where, err)
				}
				started = true
				if f := sch.waitEvent(where); f != nil {
					return f
				}
			}
		case st.K == "stopKeeper":
			if started {
				// A keeper stop that arrives between "popped" and the start of the plot is C13's subject (the monitor's
				// StopPlot is lost and Stop() waits for the whole plot); here the plotter is first moved out of that window.
				for k := 0; k < 3 && sch.parked != nil && (sch.parked.name == "popped" || sch.parked.name == "step1"); k++ {
					ctx.Label("stop-window-avoided")
					if f := sch.advance(where); f != nil {
						return f
					}
				}
				endFree := sch.freeRun()
				// a running scripted plot is stopped by the keeper's monitor
				err, blocked, _ := vfCall(func() error { return sk.Stop() })
				endFree()
				if blocked {
					return vfBlockedVerdict("keeper-stop-blocked", where+": SpaceKeeper.Stop() did not return")
				}
				if err != nil {
					return vlib.Failf("stop-failed", "%s: %v", where, err)
				}
				started = false
				sch.plState = "stopped"
				// a keeper stop may drop queued requests (the queue is reset) or keep them (hand-off channel): from now
				// on they may still be served but are no longer required to be
				for _, s := range sids {
					if m.intent[s] != "" {
						weak[s] = true
					}
				}
			}
		case st.K == "reconfig":
			// re-configuration with fewer spaces (only possible while the keeper is stopped): the others stay indexed,
			// keep their state, but are no longer in use
			if !started {
				k := 1 + st.Flags%c.N
				res, err := sk.ConfigureByBitLength(map[int]int{24: k}, false, false)
				if err == nil {
					sel := map[string]bool{}
					for _, r := range res {
						sel[r.SpaceID] = true
					}
					for _, s := range sids {
						if !m.deleted[s] {
							m.using[s] = sel[s] // requests issued earlier may still sit in the hand-off channel: kept as weak
						}
					}
					for _, s := range sids {
						weak[s] = true // the configuration resets the plotter queue
					}
					ctx.Label("reconfigured")
				}
			}
		case st.K == "advance":
			if started {
				if f := sch.advance(where); f != nil {
					return f
				}
			}
		case st.K == "complete" || st.K == "abort":
			if started && sch.plState == "plot" {
				for _, d := range env.dbs {
					d.mu.Lock()
					if d.plotting {
						select {
						case d.outcome <- st.K:
						default:
						}
					}
					d.mu.Unlock()
				}
				if f := sch.waitEvent(where); f != nil {
					return f
				}
			}
		case st.K == "proofs":
			if started {
				before := map[string]int32{}
				for k, d := range env.dbs {
					before[k] = atomic.LoadInt32(&d.proofs)
				}
				if _, err := sk.GetProofs(context.Background(), engine.SFMining, pocutil.Hash{1}, false); err != nil {
					return vlib.Failf("getproofs-failed", "%s: %v", where, err)
				}
				for k, d := range env.dbs {
					asked := atomic.LoadInt32(&d.proofs) > before[k]
					mining := m.state[k] == engine.Mining && m.using[k]
					if asked != mining {
						return vlib.Failf("proofs-asked-from-non-mining-space", "%s: space %s asked=%v, mining=%v (state %v)", where, k, asked, mining, m.state[k])
					}
				}
			}
		case strings.HasPrefix(st.K, "bulk:"):
			kind := strings.TrimPrefix(st.K, "bulk:")
			flags := engine.WorkSpaceStateFlags(st.Flags)
			targets, _ := sk.WorkSpaceIDs(flags)
			var errs map[string]error
			err, blocked, _ := vfCall(func() error {
				var e error
				errs, e = sk.ActOnWorkSpaces(flags, vfActionOf(kind))
				return e
			})
			if blocked {
				return vfBlockedVerdict("api-call-blocked", fmt.Sprintf("%s: bulk %s did not return", where, kind))
			}
			if err != nil {
				return vlib.Failf("bulk-failed", "%s: %v", where, err)
			}
			for _, t := range targets {
				stt := m.state[t]
				e := errs[t]
				switch kind {
				case "plot", "mine":
					if stt == engine.Registered || stt == engine.Plotting || (kind == "mine" && stt == engine.Ready) {
						m.intent[t] = kind
						weak[t] = !started
					}
					stoppedPlotting[t] = false
					reqCount[t]++
					if kind == "mine" {
						askedMine[t] = true
					} else {
						askedPlot[t] = true
					}
				case "stop":
					m.intent[t] = ""
					reqCount[t] = 0
					askedMine[t], askedPlot[t] = false, false
					if stt == engine.Plotting && !dbPlotted(t) {
						stoppedPlotting[t] = true
					}
				case "remove":
					if stt == engine.Registered || stt == engine.Ready {
						if e == nil {
							m.using[t] = false
							m.intent[t] = ""
							reqCount[t] = 0
						}
					} else if e == nil {
						return vlib.Failf("remove-accepted-while-"+stt.String(), "%s: %s", where, t)
					}
				}
			}
			if len(targets) >= 2 {
				interleaved = true
			}
			changedBy = st.K
		default:
			if f := apiAction(where, st.K, sid); f != nil {
				return f
			}
			if lastRequester != "" && lastRequester != sid {
				interleaved = true
			}
		}
		if f := settle(where); f != nil {
			return f
		}
		if f := observe(where, changedBy); f != nil {
			return f
		}
		if f := flagsAgree(where); f != nil {
			return f
		}
	}
	strict := true
	for _, st := range c.Steps {
		switch st.K {
		case "stop", "abort", "remove", "delete", "stopKeeper", "bulk:stop", "bulk:remove":
			strict = false
		}
	}
	// quiescence: open all gates, let every scripted plot complete, every outstanding request must reach its end state
	if started {
		env.autoOutcome = "complete"
		endFree := sch.freeRun()
		defer endFree()
		for _, d := range env.dbs {
			d.mu.Lock()
			if d.plotting {
				select {
				case d.outcome <- "complete":
				default:
				}
			}
			d.mu.Unlock()
		}
		deadline := time.Now().Add(10 * time.Second)
		for {
			pendingWork := false
			sk.stateLock.RLock()
			for _, sid := range sids {
				if ws, ok := sk.workSpaceIndex[allState].Get(sid); ok && m.using[sid] {
					want := ws.state
					if weak[sid] {
						continue
					}
					switch m.intent[sid] {
					case "plot":
						if ws.state == engine.Registered || ws.state == engine.Plotting {
							want = engine.Ready
						}
					case "mine":
						want = engine.Mining
					}
					if ws.state != want {
						pendingWork = true
					}
				}
			}
			sk.stateLock.RUnlock()
			if !pendingWork {
				break
			}
			if !strict {
				// with stops/aborts/removals in the history a request may legitimately have been consumed by a race the
				// property does not rule out (e.g. mine on a space whose plot was just stopped): reported, not judged
				ctx.Label("request-unfulfilled-in-history-with-cancellations")
				break
			}
			if time.Now().After(deadline) {
				sk.stateLock.RLock()
				var desc []string
				for _, sid := range sids {
					if ws, ok := sk.workSpaceIndex[allState].Get(sid); ok {
						desc = append(desc, fmt.Sprintf("%s state=%v outstanding=%q", sid[:8], ws.state, m.intent[sid]))
					}
				}
				sk.stateLock.RUnlock()
				return vfBlockedVerdict("request-never-fulfilled", "at quiescence (all gates open, all plots completing) outstanding requests did not reach their end state: "+strings.Join(desc, "; "))
			}
			time.Sleep(time.Millisecond)
		}
		err, blocked, _ := vfCall(func() error { return sk.Stop() })
		if blocked {
			return vfBlockedVerdict("keeper-stop-blocked", "final SpaceKeeper.Stop() did not return")
		}
		_ = err
	}
	if heldRequest {
		ctx.Label("request-while-plotter-held-or-busy")
	}
	if interleaved {
		ctx.Label("interleaved-requests")
	}
	if heldRequest || (interleaved && c.N >= 2) {
		ctx.NonTrivial()
	}
	return nil
}

var vfScratchOnce sync.Once
var vfScratch string

func vfScratchDir() string {
	vfScratchOnce.Do(func() {
		d, err := os.MkdirTemp("", "vfc09")
		if err != nil {
			panic(err)
		}
		vfScratch = d
	})
	return vfScratch
}

var vfC09Spec = vlib.Spec[vfC09Case]{
	Prop: "C09", Name: "state-machine-gated",
	Rule: "1-3 workspaces (initially registered or ready) on a scripted plot-DB backend; schedules of 1-22 steps from {plot, mine, stop, remove, delete on one space, bulk plot/mine/stop/remove by flag set, release the plotter to its next gate (hook H3: idle, popped, step1, plotReturned, done), complete/abort the running plot, start/stop the keeper, GetProofs(mining)}; after every step, under the state lock: each space in exactly one per-state index equal to its state, WorkSpaceIDs/WorkSpaceInfos agree for all 15 flag sets and the single-state queries partition SFAll, <=1 space plotting (also counted inside the backend), every observed transition is in the documented table and justified by an outstanding request or plot event, a stopped space does not enter plotting/mining until asked again, only mining spaces are asked for proofs; at quiescence every outstanding request reaches its end state; non-trivial = a request issued while the plotter is held at a gate or busy plotting, or interleaved requests on >=2 spaces; distinct = distinct case JSON",
	Gen:  vfGenC09, Run: vfC09Run,
}

func TestVerif_C09(t *testing.T) { vlib.Both(t, vfC09Spec) }
