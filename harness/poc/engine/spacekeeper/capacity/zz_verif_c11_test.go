package capacity

// C11 — plot files are deleted only on request and loaded only if they match (DESIGN.md §4 C11).
// (a) generated directory contents (valid, renamed, foreign-key, wrong-header, truncated, duplicated, legacy
//     names, junk) are indexed by a freshly constructed keeper and compared with an independent classifier;
// (b) generated action histories (remove/delete, single and bulk, on spaces in every state) with a directory
//     listing before and after every operation.

import (
	"bytes"
	"encoding/binary"
	"encoding/hex"
	"fmt"
	"os"
	"path/filepath"
	"regexp"
	"sort"
	"strconv"
	"strings"
	"testing"

	"github.com/massnetorg/mass-core/poc"
	"github.com/massnetorg/mass-core/poc/pocutil"
	"github.com/massnetorg/mass-core/pocec"
	"massnet.org/mass/poc/engine"
	"massnet.org/mass/poc/engine/massdb"
	massdb_v1 "massnet.org/mass/poc/engine/massdb/massdb.v1"

	"pgregory.net/rapid"
	"verif/vlib"
)

type vfPlotFile struct {
	Dir      int    `json:"dir"`
	Key      int    `json:"key"` // <100: wallet key index, >=100: foreign key
	BL       int    `json:"bl"`
	Progress string `json:"prog"` // "new" | "partA" | "partB" | "done"
	Mut      string `json:"mut"`  // mutation applied after creation
	Arg      int    `json:"arg"`
}

type vfC11Case struct {
	NDirs   int          `json:"ndirs"`
	NKeys   int          `json:"nkeys"`
	Files   []vfPlotFile `json:"files"`
	Actions []vfC11Act   `json:"actions"`
}

type vfC11Act struct {
	K     string `json:"k"` // remove | delete | bulk-remove | bulk-delete | mine | stop | restart
	N     int    `json:"n"`
	Force string `json:"force"` // "" | plotting : state forced before the action
	Flags int    `json:"flags"`
}

var vfMuts = []string{"", "", "", "", "rename-ordinal", "rename-key-wallet", "rename-key-foreign", "rename-bl", "hdr-filecode", "hdr-version", "hdr-bl", "hdr-type", "hdr-pkhash", "hdr-pk",
	"truncate", "swapAB", "legacy", "dup-other-dir", "missing-A", "junk", "empty-file"}

func vfGenC11(t *rapid.T) vfC11Case {
	c := vfC11Case{NDirs: rapid.IntRange(1, 3).Draw(t, "ndirs"), NKeys: rapid.IntRange(1, 5).Draw(t, "nkeys")}
	n := rapid.IntRange(1, 7).Draw(t, "nfiles")
	for i := 0; i < n; i++ {
		f := vfPlotFile{Dir: rapid.IntRange(0, c.NDirs-1).Draw(t, "dir"), BL: rapid.SampledFrom([]int{24, 24, 26, 28, 32}).Draw(t, "bl"),
			Progress: rapid.SampledFrom([]string{"new", "partA", "partB", "done", "done"}).Draw(t, "prog"), Mut: rapid.SampledFrom(vfMuts).Draw(t, "mut"), Arg: rapid.IntRange(0, 50).Draw(t, "arg")}
		if rapid.IntRange(0, 4).Draw(t, "foreign") == 0 {
			f.Key = 100 + rapid.IntRange(0, 3).Draw(t, "fkey")
		} else {
			f.Key = rapid.IntRange(0, c.NKeys-1).Draw(t, "wkey")
		}
		c.Files = append(c.Files, f)
	}
	na := rapid.IntRange(0, 6).Draw(t, "nact")
	for i := 0; i < na; i++ {
		a := vfC11Act{K: rapid.SampledFrom([]string{"remove", "delete", "remove", "delete", "bulk-remove", "bulk-delete", "mine", "stop", "restart"}).Draw(t, "act"),
			N: rapid.IntRange(0, 6).Draw(t, "which"), Flags: rapid.IntRange(1, 15).Draw(t, "flags")}
		if rapid.IntRange(0, 3).Draw(t, "force") == 0 {
			a.Force = "plotting"
		}
		c.Actions = append(c.Actions, a)
	}
	return c
}

func vfForeignKey(i int) *pocec.PublicKey {
	b := make([]byte, 32)
	b[31], b[0] = byte(i+1), 0x7e
	_, pub := pocec.PrivKeyFromBytes(pocec.S256(), b)
	return pub
}

func vfSetCheckpoint(path string, v uint64) {
	f, err := os.OpenFile(path, os.O_RDWR, 0o644)
	if err != nil {
		return
	}
	defer f.Close()
	var b [8]byte
	binary.LittleEndian.PutUint64(b[:], v)
	f.WriteAt(b[:], massdb_v1.PosCheckpoint)
}

// ---- independent classifier ---------------------------------------------------------------------------

type vfHdr struct {
	ok         bool
	typ        byte
	bl         int
	checkpoint uint64
	pk         []byte
}

func vfReadHdr(path string) vfHdr {
	raw, err := os.ReadFile(path)
	if err != nil || len(raw) < 4096 {
		return vfHdr{}
	}
	if !bytes.Equal(raw[0:32], massdb.DBFileCode) || binary.LittleEndian.Uint64(raw[32:40]) != 1 {
		return vfHdr{}
	}
	h := vfHdr{typ: raw[41], bl: int(raw[40]), checkpoint: binary.LittleEndian.Uint64(raw[42:50]), pk: append([]byte(nil), raw[82:115]...)}
	pk, err := pocec.ParsePubKey(h.pk, pocec.S256())
	if err != nil {
		return vfHdr{}
	}
	want := pocutil.PubKeyHash(pk)
	if !bytes.Equal(raw[50:82], want[:]) {
		return vfHdr{}
	}
	if h.typ != byte(massdb_v1.MapTypeHashMapA) && h.typ != byte(massdb_v1.MapTypeHashMapB) {
		return vfHdr{}
	}
	h.ok = true
	return h
}

var vfNameRe = regexp.MustCompile(`^(\d+)_([a-f0-9]{66})_(\d{2})\.massdb$`)

type vfExpect struct {
	sid   string
	state engine.WorkSpaceState
	dir   string
	ord   int
}

// vfClassify says which files must be indexed (canonical lower-case names as the node writes them).
func vfClassify(dirs []string, ordinalOf func(pk *pocec.PublicKey) (uint32, bool)) (must map[string]vfExpect, mustNot map[string]string) {
	must = map[string]vfExpect{}
	mustNot = map[string]string{}
	for _, d := range dirs {
		fis, _ := os.ReadDir(d)
		for _, fi := range fis {
			name := fi.Name()
			m := vfNameRe.FindStringSubmatch(name)
			if m == nil {
				continue
			}
			ord, _ := strconv.Atoi(m[1])
			bl, _ := strconv.Atoi(m[3])
			pkb, _ := hex.DecodeString(m[2])
			pk, err := pocec.ParsePubKey(pkb, pocec.S256())
			sid := m[2] + "-" + m[3]
			reason := ""
			var hb vfHdr
			switch {
			case err != nil:
				reason = "name key does not parse"
			case !poc.ProofTypeDefault.EnsureBitLength(bl):
				reason = "unsupported bit length"
			default:
				if wo, ok := ordinalOf(pk); !ok {
					reason = "key not in wallet"
				} else if int(wo) != ord {
					reason = "ordinal differs from wallet"
				}
			}
			if reason == "" {
				hb = vfReadHdr(filepath.Join(d, name))
				switch {
				case !hb.ok:
					reason = "header invalid or file truncated"
				case hb.typ != byte(massdb_v1.MapTypeHashMapB):
					reason = "not a map B file"
				case hb.bl != bl || !bytes.Equal(hb.pk, pkb):
					reason = "header does not match name"
				}
			}
			plotted := reason == "" && hb.checkpoint >= (uint64(1)<<uint(bl))/2
			if reason == "" && !plotted {
				ha := vfReadHdr(filepath.Join(d, strings.TrimSuffix(name, ".massdb")+"_a.massdb"))
				switch {
				case !ha.ok:
					reason = "map A missing or invalid while B is incomplete"
				case ha.typ != byte(massdb_v1.MapTypeHashMapA):
					reason = "map A file is not of type A"
				case ha.bl != bl || !bytes.Equal(ha.pk, pkb):
					reason = "map A header does not match name"
				}
			}
			if reason != "" {
				if _, dup := must[sid]; !dup {
					mustNot[filepath.Join(d, name)] = reason
				}
				continue
			}
			if _, dup := must[sid]; dup {
				continue // duplicate across directories: exactly one is indexed (the first in directory order)
			}
			st := engine.Registered
			if plotted {
				st = engine.Ready
			}
			must[sid] = vfExpect{sid: sid, state: st, dir: d, ord: ord}
		}
	}
	return
}

func vfC11Run(c vfC11Case, ctx *vlib.Ctx) *vlib.Failure {
	vfSetup()
	root, err := os.MkdirTemp("", "vfc11")
	if err != nil {
		panic(err)
	}
	defer os.RemoveAll(root)
	var dirs []string
	for i := 0; i < c.NDirs; i++ {
		d := filepath.Join(root, fmt.Sprintf("plots%d", i))
		os.MkdirAll(d, 0o755)
		dirs = append(dirs, d)
	}
	w, err := vfNewWallet(root, 0x11)
	if err != nil {
		return vlib.Failf("harness:wallet", "%v", err)
	}
	defer w.close()
	var wkeys []*pocec.PublicKey
	var words []uint32
	for i := 0; i < c.NKeys; i++ {
		pk, ord, err := w.kmc.GenerateNewPublicKey()
		if err != nil {
			return vlib.Failf("harness:wallet", "%v", err)
		}
		wkeys = append(wkeys, pk)
		words = append(words, ord)
	}
	kinds := map[string]bool{}
	// ---- build the directory contents
	for _, f := range c.Files {
		var pk *pocec.PublicKey
		ord := int64(f.Arg % 7)
		if f.Key >= 100 {
			pk = vfForeignKey(f.Key - 100)
		} else {
			pk, ord = wkeys[f.Key%len(wkeys)], int64(words[f.Key%len(wkeys)])
		}
		dir := dirs[f.Dir%len(dirs)]
		hexpk := hex.EncodeToString(pk.SerializeCompressed())
		pathB := filepath.Join(dir, fmt.Sprintf("%d_%s_%d.massdb", ord, hexpk, f.BL))
		pathA := filepath.Join(dir, fmt.Sprintf("%d_%s_%d_a.massdb", ord, hexpk, f.BL))
		if _, err := os.Stat(pathB); err == nil {
			continue // same space generated twice in this directory
		}
		dbi, err := massdb_v1.CreateDB(dir, ord, pk, f.BL)
		if err != nil {
			return vlib.Failf("harness:create", "%v", err)
		}
		dbi.Close()
		vol := uint64(1) << uint(f.BL)
		switch f.Progress {
		case "partA":
			vfSetCheckpoint(pathA, vol/4+1)
		case "partB":
			vfSetCheckpoint(pathA, vol)
			vfSetCheckpoint(pathB, vol/8+1)
		case "done":
			vfSetCheckpoint(pathB, vol/2)
			os.Remove(pathA)
		}
		kinds[f.Mut] = true
		patch := func(path string, off int, b []byte) {
			if fh, err := os.OpenFile(path, os.O_RDWR, 0o644); err == nil {
				fh.WriteAt(b, int64(off))
				fh.Close()
			}
		}
		renameBoth := func(newOrd int64, newHex string, newBL int) {
			os.Rename(pathB, filepath.Join(dir, fmt.Sprintf("%d_%s_%d.massdb", newOrd, newHex, newBL)))
			os.Rename(pathA, filepath.Join(dir, fmt.Sprintf("%d_%s_%d_a.massdb", newOrd, newHex, newBL)))
		}
		switch f.Mut {
		case "rename-ordinal":
			renameBoth(ord+1+int64(f.Arg%3), hexpk, f.BL)
		case "rename-key-wallet":
			o := wkeys[(f.Key+1+f.Arg)%len(wkeys)]
			renameBoth(int64(words[(f.Key+1+f.Arg)%len(wkeys)]), hex.EncodeToString(o.SerializeCompressed()), f.BL)
		case "rename-key-foreign":
			renameBoth(ord, hex.EncodeToString(vfForeignKey(9).SerializeCompressed()), f.BL)
		case "rename-bl":
			renameBoth(ord, hexpk, []int{24, 26, 28, 30, 22, 25, 99}[f.Arg%7])
		case "hdr-filecode":
			patch(pathB, f.Arg%32, []byte{0xff})
		case "hdr-version":
			patch(pathB, 32, []byte{2})
		case "hdr-bl":
			patch(pathB, 40, []byte{byte(f.BL + 2)})
		case "hdr-type":
			patch(pathB, 41, []byte{[]byte{byte(massdb_v1.MapTypeHashMapA), 0, 7}[f.Arg%3]}) // type A, or invalid values
		case "hdr-pkhash":
			patch(pathB, 50+f.Arg%32, []byte{0x5a})
		case "hdr-pk":
			patch(pathB, 82, vfForeignKey(7).SerializeCompressed())
		case "truncate":
			os.Truncate(pathB, int64(f.Arg*80))
		case "swapAB":
			if _, err := os.Stat(pathA); err == nil {
				tmp := pathB + ".tmp"
				os.Rename(pathB, tmp)
				os.Rename(pathA, pathB)
				os.Rename(tmp, pathA)
			}
		case "legacy":
			up := strings.ToUpper(hexpk)
			os.Rename(pathB, filepath.Join(dir, fmt.Sprintf("%s-%d-B.MASSDB", up, f.BL)))
			os.Rename(pathA, filepath.Join(dir, fmt.Sprintf("%s-%d-A.MASSDB", up, f.BL)))
		case "dup-other-dir":
			od := dirs[(f.Dir+1)%len(dirs)]
			if od != dir {
				for _, p := range []string{pathA, pathB} {
					if raw, err := os.ReadFile(p); err == nil {
						os.WriteFile(filepath.Join(od, filepath.Base(p)), raw, 0o644)
					}
				}
			}
		case "missing-A":
			os.Remove(pathA)
		case "junk":
			os.WriteFile(filepath.Join(dir, fmt.Sprintf("junk%d.massdb", f.Arg)), []byte("not a plot"), 0o644)
			os.WriteFile(filepath.Join(dir, "README.txt"), []byte("x"), 0o644)
		case "empty-file":
			os.Truncate(pathB, 0)
		}
	}
	// legacy names are renamed by the keeper's documented upgrade step before indexing: the classifier judges the
	// directory as it is after that step, i.e. after the constructor has run; directory diffs are judged below.
	before := vfListDir(dirs)
	sk, err := vfNewKeeper(w, dirs)
	if err != nil {
		return vlib.Failf("keeper-start-failed", "NewSpaceKeeperV1 on the generated directories: %v", err)
	}
	defer func() { vfCloseKeeper(sk) }()
	after := vfListDir(dirs)
	_, removed, changed := vfDirDiff(before, after)
	for _, p := range removed {
		if !strings.Contains(filepath.Base(p), "-") { // only legacy names (PK-BL-A/B.MASSDB) may disappear: they are renamed
			return vlib.Failf("startup-removed-file", "constructing the keeper removed %s", p)
		}
	}
	if len(changed) > 0 {
		return vlib.Failf("startup-altered-file", "constructing the keeper altered %v", vfBase(changed))
	}
	must, mustNot := vfClassify(dirs, w.kmc.GetPublicKeyOrdinal)
	idx := sk.workSpaceIndex[allState].Items()
	for sid, ex := range must {
		ws, ok := idx[sid]
		if !ok {
			return vlib.Failf("index:valid-file-not-indexed", "space %s (dir %s, ordinal %d) is well-formed, matches its name and belongs to the wallet, but was not indexed", sid, filepath.Base(ex.dir), ex.ord)
		}
		if ws.state != ex.state {
			return vlib.Failf("index:wrong-state", "space %s indexed as %v, recorded progress says %v", sid, ws.state, ex.state)
		}
		if int(ws.id.ordinal) != ex.ord {
			return vlib.Failf("index:wrong-ordinal", "space %s indexed with ordinal %d, file name says %d", sid, ws.id.ordinal, ex.ord)
		}
	}
	for sid, ws := range idx {
		if _, ok := must[sid]; !ok {
			why := "no matching valid file"
			for p, r := range mustNot {
				if strings.Contains(p, strings.SplitN(sid, "-", 2)[0]) {
					why = filepath.Base(p) + ": " + r
				}
			}
			return vlib.Failf("index:invalid-file-indexed", "space %s (dir %s, state %v) was indexed although its file fails the checks (%s)", sid, filepath.Base(ws.rootDir), ws.state, why)
		}
	}
	for k := range kinds {
		if k != "" {
			ctx.Label("mut:" + k)
		}
	}
	// ---- (b) action history
	if _, err := sk.ConfigureByFlags(engine.SFAll, false, false); err != nil && err != ErrSpaceKeeperConfiguredNothing {
		return vlib.Failf("configure-failed", "%v", err)
	}
	refused := false
	for ai, a := range c.Actions {
		where := fmt.Sprintf("action#%d %s", ai, a.K)
		ids, _ := sk.WorkSpaceIDs(engine.SFAll)
		sort.Strings(ids)
		listBefore := vfListDir(dirs)
		stateOf := func() map[string]engine.WorkSpaceState {
			m := map[string]engine.WorkSpaceState{}
			for sid, ws := range sk.workSpaceIndex[allState].Items() {
				m[sid] = ws.state
			}
			return m
		}
		statesBefore := stateOf()
		if a.K == "restart" {
			vfCloseKeeper(sk)
			sk = nil
			if sk, err = vfNewKeeper(w, dirs); err != nil {
				return vlib.Failf("keeper-start-failed", "%s: %v", where, err)
			}
			sk.ConfigureByFlags(engine.SFAll, false, false)
			m2, _ := vfClassify(dirs, w.kmc.GetPublicKeyOrdinal)
			got := sk.workSpaceIndex[allState].Items()
			if len(got) != len(m2) {
				return vlib.Failf("index:restart-differs", "%s: %d spaces indexed, classifier expects %d", where, len(got), len(m2))
			}
			continue
		}
		if len(ids) == 0 {
			continue
		}
		sid := ids[a.N%len(ids)]
		ws := sk.workSpaceIndex[allState].Items()[sid]
		if a.Force == "plotting" && ws.state == engine.Registered {
			// white-box: put the space into the plotting state the way plotter step 1 does
			sk.workSpaceIndex[engine.Registered].Delete(sid)
			sk.workSpaceIndex[engine.Plotting].Set(sid, ws)
			ws.state = engine.Plotting
			sk.queue.poppedItem = newQueuedWorkSpace(ws, false)
			statesBefore = stateOf()
		}
		st := ws.state
		judgeUnchanged := func(what string) *vlib.Failure {
			_, rem, chg := vfDirDiff(listBefore, vfListDir(dirs))
			if len(rem) > 0 || len(chg) > 0 {
				return vlib.Failf(what+"-erased-files", "%s on %s (%v): removed %v changed %v", where, sid, st, vfBase(rem), vfBase(chg))
			}
			return nil
		}
		switch a.K {
		case "mine":
			// registered spaces would be sent to the plotter (not running here): only ready -> mining is exercised
			if st == engine.Ready || st == engine.Mining {
				if err := sk.ActOnWorkSpace(sid, engine.Mine); err != nil {
					return vlib.Failf("mine-refused", "%s: %v", where, err)
				}
				if ws.state != engine.Mining {
					return vlib.Failf("mine-state", "%s: state %v", where, ws.state)
				}
			}
			if f := judgeUnchanged("mine"); f != nil {
				return f
			}
		case "stop":
			if st == engine.Mining || st == engine.Ready || st == engine.Registered {
				if err := sk.ActOnWorkSpace(sid, engine.Stop); err != nil {
					return vlib.Failf("stop-refused", "%s: %v", where, err)
				}
			}
			if f := judgeUnchanged("stop"); f != nil {
				return f
			}
		case "remove", "delete":
			act := engine.Remove
			if a.K == "delete" {
				act = engine.Delete
			}
			err := sk.ActOnWorkSpace(sid, act)
			if st == engine.Plotting || st == engine.Mining {
				refused = true
				if err == nil {
					return vlib.Failf(a.K+"-accepted-while-"+st.String(), "%s: %v of %s succeeded while it is %v", where, act, sid, st)
				}
				if f := judgeUnchanged(a.K + "-refused-but"); f != nil {
					return f
				}
				if now := stateOf(); fmt.Sprint(now) != fmt.Sprint(statesBefore) {
					return vlib.Failf(a.K+"-refused-but-state-changed", "%s: states %v -> %v", where, statesBefore, now)
				}
				if l, _ := sk.WorkSpaceIDs(engine.SFAll); len(l) != len(ids) {
					return vlib.Failf(a.K+"-refused-but-list-changed", "%s", where)
				}
				continue
			}
			if err != nil {
				return vlib.Failf(a.K+"-refused", "%s: %v of a %v space failed: %v", where, act, st, err)
			}
			_, rem, chg := vfDirDiff(listBefore, vfListDir(dirs))
			if a.K == "remove" {
				if len(rem) > 0 || len(chg) > 0 {
					return vlib.Failf("remove-erased-files", "%s: removed %v changed %v", where, vfBase(rem), vfBase(chg))
				}
			} else {
				want := 2
				if st == engine.Ready {
					want = 1 // map A is gone once the table is complete
				}
				for _, p := range rem {
					if filepath.Dir(p) != ws.rootDir || !strings.HasPrefix(filepath.Base(p), fmt.Sprintf("%d_%s_%d", ws.id.ordinal, strings.SplitN(sid, "-", 2)[0], ws.id.bitLength)) {
						return vlib.Failf("delete-erased-other-files", "%s: deleting %s removed %s", where, sid, p)
					}
				}
				if len(rem) != want || len(chg) > 0 {
					return vlib.Failf("delete-wrong-files", "%s: deleting %s (%v) removed %v changed %v", where, sid, st, vfBase(rem), vfBase(chg))
				}
			}
		case "bulk-remove", "bulk-delete":
			act := engine.Remove
			if a.K == "bulk-delete" {
				act = engine.Delete
			}
			flags := engine.WorkSpaceStateFlags(a.Flags)
			errs, err := sk.ActOnWorkSpaces(flags, act)
			if err != nil {
				return vlib.Failf("bulk-failed", "%s: %v", where, err)
			}
			_, rem, chg := vfDirDiff(listBefore, vfListDir(dirs))
			if len(chg) > 0 {
				return vlib.Failf("bulk-altered-files", "%s: %v", where, vfBase(chg))
			}
			allowed := map[string]bool{}
			for s, e := range errs {
				stb := statesBefore[s]
				if stb == engine.Plotting || stb == engine.Mining {
					refused = true
					if e == nil {
						return vlib.Failf(a.K+"-accepted-while-"+stb.String(), "%s: %s", where, s)
					}
				} else if e == nil && act == engine.Delete {
					allowed[strings.SplitN(s, "-", 2)[0]] = true
				}
			}
			for _, p := range rem {
				ok := false
				for k := range allowed {
					if strings.Contains(filepath.Base(p), k) {
						ok = true
					}
				}
				if !ok {
					return vlib.Failf("bulk-erased-other-files", "%s: removed %s", where, p)
				}
			}
			if act == engine.Remove && len(rem) > 0 {
				return vlib.Failf("remove-erased-files", "%s: %v", where, vfBase(rem))
			}
		}
	}
	validN, invalidN := len(must), len(mustNot)
	ctx.LabelN("valid-files", validN)
	ctx.LabelN("invalid-files", invalidN)
	if (validN > 0 && invalidN > 0) || refused {
		ctx.NonTrivial()
	}
	if refused {
		ctx.Label("refused-delete-or-remove")
	}
	return nil
}

var vfC11Spec = vlib.Spec[vfC11Case]{
	Prop: "C11", Name: "index-and-delete",
	Rule: "1-3 plot directories, 1-7 real massdb.v1 file pairs (wallet and foreign keys, bit lengths 24..32, progress new/partial A/partial B/complete) each with one mutation from {renamed ordinal/key/bit length, header field corruption (file code, version, bit length, type, key hash, key), truncation below 4096, A/B swapped, legacy names, duplicate in another directory, missing A, junk files, empty file}; oracle (a): a freshly constructed keeper indexes exactly the files an independent classifier (own header parser) accepts, once each, with ready/registered from the recorded progress, and its construction removes or alters no file (legacy renames excepted); (b) 0-6 actions (remove/delete single and bulk, mine, stop, restart) with a directory listing before and after each: refused while plotting or mining with nothing changed, delete erases exactly that space's files, remove erases nothing; non-trivial = directory with at least one valid and one invalid file, or a refused remove/delete; distinct = distinct case JSON",
	Gen:  vfGenC11, Run: vfC11Run,
}

func TestVerif_C11(t *testing.T) { vlib.Both(t, vfC11Spec) }
