package capacity

// Keeper-side clauses of C06 (a plot file named after (ordinal, key) is recognised again after a restart) and of
// C05 (the keeper signs block hashes through the wallet: the signature verifies under the space's key).

import (
	"fmt"
	"os"
	"path/filepath"
	"regexp"
	"strconv"
	"testing"

	"github.com/massnetorg/mass-core/wire"
	"massnet.org/mass/poc/engine"

	"pgregory.net/rapid"
	"verif/vlib"
)

type vfKeeperKeys struct {
	Sizes   []uint64 `json:"sizes"` // successive ConfigureBySize targets (MiB)
	Extra   []int    `json:"extra"` // other wallet activity between the calls: addresses issued on the internal branch
	Hash    []byte   `json:"hash"`
	Restart bool     `json:"restart"`
}

var vfPlotName = regexp.MustCompile(`^(\d+)_([a-f0-9]{66})_(\d{2})\.massdb$`)

func vfKeeperKeysRun(c vfKeeperKeys, ctx *vlib.Ctx) *vlib.Failure {
	vfSetup()
	root, err := os.MkdirTemp("", "vfc06k")
	if err != nil {
		panic(err)
	}
	defer os.RemoveAll(root)
	dir := filepath.Join(root, "plots")
	os.MkdirAll(dir, 0o755)
	w, err := vfNewWallet(root, 0x06)
	if err != nil {
		return vlib.Failf("harness:wallet", "%v", err)
	}
	defer w.close()
	sk, err := vfNewKeeper(w, []string{dir})
	if err != nil {
		return vlib.Failf("harness:keeper", "%v", err)
	}
	defer func() { vfCloseKeeper(sk) }()
	ksID := w.kmc.ListKeystoreNames()[0]
	seenOrd := map[int]string{}
	for i, s := range c.Sizes {
		if i < len(c.Extra) && c.Extra[i] > 0 {
			if _, err := w.kmc.NextAddresses(ksID, true, uint32(c.Extra[i])); err != nil {
				return vlib.Failf("harness:next", "%v", err)
			}
		}
		infos, err := sk.ConfigureBySize(s*vfMiB, false, false)
		if err != nil {
			continue
		}
		for _, in := range infos {
			ord, ok := w.kmc.GetPublicKeyOrdinal(in.PublicKey)
			if !ok || int64(ord) != in.Ordinal {
				return vlib.Failf("keeper:ordinal-differs-from-wallet", "space %s has ordinal %d, wallet says (%d,%v)", in.SpaceID, in.Ordinal, ord, ok)
			}
			if prev, dup := seenOrd[int(ord)]; dup && prev != in.SpaceID {
				return vlib.Failf("keeper:ordinal-reused", "ordinal %d names %s and %s", ord, prev, in.SpaceID)
			}
			seenOrd[int(ord)] = in.SpaceID
			// C05 keeper path
			var h [32]byte
			copy(h[:], c.Hash)
			sig, err := sk.SignHash(in.SpaceID, h)
			if err != nil {
				return vlib.Failf("keeper:sign-failed", "SignHash(%s): %v", in.SpaceID, err)
			}
			d := wire.HashH(h[:])
			if !sig.Verify(d[:], in.PublicKey) {
				return vlib.Failf("keeper:signature-does-not-verify", "SignHash(%s) does not verify under the space's key for HashH(hash)", in.SpaceID)
			}
		}
	}
	// file names carry (ordinal, key): ordinals consecutive from 0, each file's ordinal = wallet ordinal of its key
	fis, _ := os.ReadDir(dir)
	files := 0
	for _, fi := range fis {
		m := vfPlotName.FindStringSubmatch(fi.Name())
		if m == nil {
			continue
		}
		files++
		ord, _ := strconv.Atoi(m[1])
		if sid, ok := seenOrd[ord]; !ok || sid[:66] != m[2] {
			return vlib.Failf("keeper:file-name-ordinal", "file %s: ordinal %d belongs to %q", fi.Name(), ord, sid)
		}
	}
	for o := 0; o < len(seenOrd); o++ {
		if _, ok := seenOrd[o]; !ok {
			return vlib.Failf("keeper:ordinal-gap", "plot keys used ordinals %v", fmt.Sprint(seenOrd))
		}
	}
	if c.Restart && files > 0 {
		vfCloseKeeper(sk)
		sk = nil
		sk2, err := vfNewKeeper(w, []string{dir})
		if err != nil {
			return vlib.Failf("restart-failed", "%v", err)
		}
		sk = sk2
		idx := sk.workSpaceIndex[allState].Items()
		if len(idx) != files {
			return vlib.Failf("keeper:files-not-recognised-after-restart", "%d plot files on disk, %d indexed after restart", files, len(idx))
		}
		for sid, ws := range idx {
			if seenOrd[int(ws.id.ordinal)] != sid {
				return vlib.Failf("keeper:files-not-recognised-after-restart", "%s re-indexed with ordinal %d", sid, ws.id.ordinal)
			}
		}
		if _, err := sk.ConfigureByFlags(engine.SFAll, false, false); err != nil {
			return vlib.Failf("restart-configure", "%v", err)
		}
	}
	ctx.LabelN("plot-files", files)
	if files >= 2 && c.Restart {
		ctx.NonTrivial()
	}
	return nil
}

func vfGenKeeperKeys(t *rapid.T) vfKeeperKeys {
	c := vfKeeperKeys{Hash: rapid.SliceOfN(rapid.Byte(), 32, 32).Draw(t, "hash"), Restart: rapid.IntRange(0, 3).Draw(t, "restart") != 0}
	for i := rapid.IntRange(1, 3).Draw(t, "n"); i > 0; i-- {
		c.Sizes = append(c.Sizes, uint64(rapid.IntRange(96, 1500).Draw(t, "mib")))
		c.Extra = append(c.Extra, rapid.IntRange(0, 3).Draw(t, "extra"))
	}
	return c
}

var vfC06KeeperSpec = vlib.Spec[vfKeeperKeys]{
	Prop: "C06", Name: "keeper-plot-file-names", Scale: 0.15, Min: 8,
	Rule: "1-3 successive ConfigureBySize calls (96..1500 MiB) on a real wallet interleaved with other address generation, optional restart of the keeper on the same directory; oracle: every space's ordinal equals the wallet's ordinal of its key, ordinals are consecutive without reuse, plot files are named <ordinal>_<key>_<bl>, and a restarted keeper recognises exactly those files; non-trivial = >=2 plot files and a restart; distinct = distinct case JSON",
	Gen:  vfGenKeeperKeys, Run: vfKeeperKeysRun,
}

func TestVerif_C06(t *testing.T) { vlib.Both(t, vfC06KeeperSpec) }

var vfC05KeeperSpec = vlib.Spec[vfKeeperKeys]{
	Prop: "C05", Name: "keeper-sign-hash", Scale: 0.1, Min: 8,
	Rule: "the keeper's SignHash for every configured space (real wallet) verifies with pocec under the space's public key for HashH(hash); non-trivial = >=2 spaces; distinct = distinct case JSON",
	Gen:  vfGenKeeperKeys,
	Run: func(c vfKeeperKeys, ctx *vlib.Ctx) *vlib.Failure {
		c.Restart = true
		return vfKeeperKeysRun(c, ctx)
	},
}

func TestVerif_C05(t *testing.T) { vlib.Both(t, vfC05KeeperSpec) }
