package capacity

// Concurrent action pairs on one space (C09 "all orders in which ... interleave", C11 "remove and delete are refused
// while a space is plotting or mining"): two callers issue one action each on the same plotted space at (nearly) the
// same moment, the start of one of them shifted by a generated number of busy iterations. Whatever the schedule, the
// pair of results and the end state must be the outcome of one of the two sequential orders (a two-operation
// linearizability check against a small reference of the documented transitions).

import (
	"fmt"
	"runtime"
	"sort"
	"sync"
	"sync/atomic"
	"testing"

	"github.com/massnetorg/mass-core/pocec"
	"massnet.org/mass/config"
	"massnet.org/mass/poc/engine"

	"pgregory.net/rapid"
	"verif/vlib"
)

type vfPair struct {
	Init  string `json:"init"` // ready | mining
	A     string `json:"a"`    // mine | stop | remove | delete
	B     string `json:"b"`
	SpinA int    `json:"spinA"`
	SpinB int    `json:"spinB"`
}

type vfPairsCase struct {
	Pairs []vfPair `json:"pairs"`
}

func vfGenPairs(t *rapid.T) vfPairsCase {
	var c vfPairsCase
	n := rapid.IntRange(8, 24).Draw(t, "n")
	ops := []string{"mine", "mine", "stop", "remove", "delete", "delete"}
	spins := []int{0, 0, 0, 1, 3, 10, 30, 100, 300}
	for i := 0; i < n; i++ {
		c.Pairs = append(c.Pairs, vfPair{
			Init:  rapid.SampledFrom([]string{"ready", "ready", "mining"}).Draw(t, "init"),
			A:     rapid.SampledFrom(ops).Draw(t, "a"),
			B:     rapid.SampledFrom(ops).Draw(t, "b"),
			SpinA: rapid.SampledFrom(spins).Draw(t, "spinA"),
			SpinB: rapid.SampledFrom(spins).Draw(t, "spinB"),
		})
	}
	return c
}

// reference of one space: state ready|mining|gone(removed or deleted)
type vfPairState struct {
	state   string // ready | mining
	using   bool
	deleted bool
}

func vfPairApply(s vfPairState, op string) (vfPairState, string) {
	if !s.using {
		return s, "noexist"
	}
	switch op {
	case "mine":
		s.state = "mining"
		return s, "ok"
	case "stop":
		s.state = "ready"
		return s, "ok"
	case "remove", "delete":
		if s.state != "ready" {
			return s, "notstill"
		}
		s.using = false
		s.deleted = op == "delete"
		return s, "ok"
	}
	return s, "?"
}

func vfPairErrClass(err error) string {
	switch err {
	case nil:
		return "ok"
	case ErrWorkSpaceDoesNotExist:
		return "noexist"
	case ErrWorkSpaceIsNotStill:
		return "notstill"
	}
	return "other:" + err.Error()
}

var vfPairSink uint64

func vfPairsRun(c vfPairsCase, ctx *vlib.Ctx) *vlib.Failure {
	vfSetup()
	env := &vfFakeEnv{dbs: map[string]*vfFakeDB{}, prePlotted: map[string]bool{}, plotStarted: make(chan string, 64)}
	restore := vfInstallFake(env)
	defer restore()
	wallet := &vfFakeWallet{}
	n := len(c.Pairs)
	for i := 0; i < n; i++ {
		b := make([]byte, 32)
		b[0], b[31] = 0x09, byte(i+1)
		_, pk := pocec.PrivKeyFromBytes(pocec.S256(), b)
		env.prePlotted[vfSidOf(pk, 24)] = true
	}
	cfg := &config.Config{Miner: config.DefaultMiner()}
	cfg.Miner.ProofDir = []string{vfScratchDir()}
	cfg.Miner.PrivatePassword = ""
	ski, err := NewSpaceKeeperV1(cfg, wallet)
	if err != nil {
		return vlib.Failf("harness:keeper", "%v", err)
	}
	sk := ski.(*SpaceKeeper)
	defer sk.workerPool.Release()
	infos, err := sk.ConfigureByBitLength(map[int]int{24: n}, false, false)
	if err != nil || len(infos) != n {
		return vlib.Failf("harness:configure", "%v (%d spaces)", err, len(infos))
	}
	var sids []string
	for _, in := range infos {
		if in.State != engine.Ready {
			return vlib.Failf("harness:not-ready", "%s is %v", in.SpaceID, in.State)
		}
		sids = append(sids, in.SpaceID)
	}
	sort.Strings(sids)
	overlapped := 0
	for i, p := range c.Pairs {
		sid := sids[i]
		where := fmt.Sprintf("pair#%d %s: %s || %s from %s", i, sid[:8], p.A, p.B, p.Init)
		init := vfPairState{state: "ready", using: true}
		if p.Init == "mining" {
			if err := sk.ActOnWorkSpace(sid, engine.Mine); err != nil {
				return vlib.Failf("action-refused", "%s: preparing: %v", where, err)
			}
			init.state = "mining"
		}
		var ready, goFlag int32
		var wg sync.WaitGroup
		res := make([]error, 2)
		run := func(k int, op string, spin int) {
			defer wg.Done()
			atomic.AddInt32(&ready, 1)
			for atomic.LoadInt32(&goFlag) == 0 {
			}
			var s uint64
			for j := 0; j < spin; j++ {
				s += uint64(j)
			}
			atomic.AddUint64(&vfPairSink, s)
			res[k] = sk.ActOnWorkSpace(sid, vfActionOf(op))
		}
		wg.Add(2)
		go run(0, p.A, p.SpinA)
		go run(1, p.B, p.SpinB)
		for atomic.LoadInt32(&ready) < 2 {
			runtime.Gosched()
		}
		atomic.StoreInt32(&goFlag, 1)
		wg.Wait()
		ra, rb := vfPairErrClass(res[0]), vfPairErrClass(res[1])
		// observed end state
		sk.stateLock.RLock()
		ws, indexed := sk.workSpaceIndex[allState].Get(sid)
		obs := vfPairState{}
		if indexed {
			obs.using = ws.using
			switch ws.state {
			case engine.Ready:
				obs.state = "ready"
			case engine.Mining:
				obs.state = "mining"
			default:
				obs.state = ws.state.String()
			}
			in := 0
			for st := engine.FirstState; st <= engine.LastState; st++ {
				if _, ok := sk.workSpaceIndex[st].Get(sid); ok {
					in++
				}
			}
			if in != 1 {
				sk.stateLock.RUnlock()
				return vlib.Failf("inv:not-exactly-one-state", "%s: the space is in %d per-state indexes", where, in)
			}
		}
		sk.stateLock.RUnlock()
		env.mu.Lock()
		d := env.dbs[sid]
		env.mu.Unlock()
		dbDeleted := false
		if d != nil {
			d.mu.Lock()
			dbDeleted = d.deleted
			d.mu.Unlock()
		}
		match := func(first, second string, r1, r2 string) bool {
			s1, e1 := vfPairApply(init, first)
			s2, e2 := vfPairApply(s1, second)
			if e1 != r1 || e2 != r2 {
				return false
			}
			if s2.deleted {
				return !indexed && dbDeleted
			}
			if dbDeleted || !indexed {
				return false
			}
			return obs.using == s2.using && (!s2.using || obs.state == s2.state)
		}
		if !match(p.A, p.B, ra, rb) && !match(p.B, p.A, rb, ra) {
			_, ea1 := vfPairApply(init, p.A)
			sAB, _ := vfPairApply(init, p.A)
			_, eb2 := vfPairApply(sAB, p.B)
			_, eb1 := vfPairApply(init, p.B)
			sBA, _ := vfPairApply(init, p.B)
			_, ea2 := vfPairApply(sBA, p.A)
			sig := "concurrent-pair-not-sequential"
			if (p.A == "delete" || p.A == "remove" || p.B == "delete" || p.B == "remove") && ra == "ok" && rb == "ok" && (p.A == "mine" || p.B == "mine") {
				sig = "remove-or-delete-accepted-while-mining"
			}
			return vlib.Failf(sig, "%s: results (%s, %s), end state indexed=%v using=%v state=%s dbDeleted=%v; sequential orders give (%s, %s) or (%s, %s)", where, ra, rb, indexed, obs.using, obs.state, dbDeleted, ea1, eb2, ea2, eb1)
		}
		if !match(p.A, p.B, ra, rb) || !match(p.B, p.A, rb, ra) {
			ctx.Label("order-distinguishable")
			overlapped++
		}
	}
	ctx.LabelN("pairs", len(c.Pairs))
	if overlapped >= 2 {
		ctx.NonTrivial()
	}
	return nil
}

const vfPairsRule = "8-24 plotted spaces on the scripted backend, one concurrent pair of actions from {mine, stop, remove, delete} per space, started together from ready or mining with 0-300 busy iterations of skew; oracle: results and end state (indexes, using flag, backend deleted flag) equal those of one of the two sequential orders under the documented transitions; non-trivial = at least two pairs whose two orders differ in outcome; distinct = distinct case JSON"

var vfPairsSpecC11 = vlib.Spec[vfPairsCase]{Prop: "C11", Name: "concurrent-action-pairs", NoShrink: true, Scale: 1, Min: 8, Rule: vfPairsRule, Gen: vfGenPairs, Run: vfPairsRun}
var vfPairsSpecC09 = vlib.Spec[vfPairsCase]{Prop: "C09", Name: "concurrent-action-pairs", NoShrink: true, Scale: 0.1, Min: 8, Rule: vfPairsRule, Gen: vfGenPairs, Run: vfPairsRun}

func TestVerif_C11_Pairs(t *testing.T) { vlib.Both(t, vfPairsSpecC11) }
func TestVerif_C09_Pairs(t *testing.T) { vlib.Both(t, vfPairsSpecC09) }
