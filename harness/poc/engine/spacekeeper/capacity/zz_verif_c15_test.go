package capacity

// C15 — capacity configuration honours the requested size and reuses spaces (DESIGN.md §4 C15).

import (
	"fmt"
	"os"
	"path/filepath"
	"sort"
	"strings"
	"testing"

	"github.com/massnetorg/mass-core/pocec"
	"github.com/shirou/gopsutil/disk"
	"massnet.org/mass/poc/engine"
	"massnet.org/mass/poc/engine/massdb"

	"pgregory.net/rapid"
	"verif/vlib"
)

type vfC15Op struct {
	K     string      `json:"k"` // size | path | bl | flags | remove | delete | restart | plotted | mine
	Size  uint64      `json:"size,omitempty"`
	Over  bool        `json:"over,omitempty"` // request free disk space + Size instead
	Dirs  []int       `json:"dirs,omitempty"`
	Sizes []uint64    `json:"sizes,omitempty"`
	OverI int         `json:"overI,omitempty"` // index+1 of the path entry that asks for more than the free space
	Spell []int       `json:"spell,omitempty"` // per path entry: 0 clean, 1 trailing slash, 2 "/./" inside, 3 "/x/../x" (same directory, other spelling)
	BL    map[int]int `json:"bl,omitempty"`
	N     int         `json:"n,omitempty"`
}

type vfC15Case struct {
	NDirs int       `json:"ndirs"`
	Ops   []vfC15Op `json:"ops"`
}

const vfMiB = uint64(1) << 20

// vfOverMargin: an "over" request asks for the free space measured a moment ago plus this much. The margin has to be
// larger than everything that may be subtracted or may change in between: the spaces already indexed in the directory
// count towards the request, and the free space of the file system moves while other processes write (the parallel
// shards of this very check do); a request within a few bytes of the free space is not what "beyond free disk space"
// means and is decided by whoever reads the counter last.
const vfOverMargin = uint64(64) << 30

func vfGenSize(t *rapid.T, label string) uint64 {
	s24, s26, s28 := vfPlotSize(24), vfPlotSize(26), vfPlotSize(28)
	switch rapid.IntRange(0, 7).Draw(t, label+"Kind") {
	case 0:
		return uint64(rapid.IntRange(1, 30).Draw(t, label+"K")) * s24
	case 1:
		return uint64(rapid.IntRange(1, 30).Draw(t, label+"K"))*s24 + uint64(rapid.SampledFrom([]int{-1, 1}).Draw(t, label+"PM")+1) - 1
	case 2:
		return uint64(rapid.IntRange(0, 2).Draw(t, label+"a"))*s28 + uint64(rapid.IntRange(0, 3).Draw(t, label+"b"))*s26 + uint64(rapid.IntRange(0, 4).Draw(t, label+"c"))*s24 + uint64(rapid.IntRange(0, 2).Draw(t, label+"d"))
	case 3:
		return uint64(rapid.IntRange(0, int(s24)).Draw(t, label+"Small")) // below the minimum
	case 4:
		return s24 - 1 + uint64(rapid.IntRange(0, 2).Draw(t, label+"Edge"))
	default:
		return uint64(rapid.IntRange(90, 6000).Draw(t, label+"MiB")) * vfMiB
	}
}

func vfGenC15Op(t *rapid.T, c *vfC15Case, kinds []string) vfC15Op {
	op := vfC15Op{K: rapid.SampledFrom(kinds).Draw(t, "kind")}
	switch op.K {
	case "size":
		op.Size = vfGenSize(t, "size")
		op.Over = rapid.IntRange(0, 9).Draw(t, "over") == 0
	case "path":
		nd := rapid.IntRange(1, c.NDirs).Draw(t, "npaths")
		perm := rapid.Permutation([]int{0, 1, 2}[:c.NDirs]).Draw(t, "perm")
		for j := 0; j < nd; j++ {
			op.Dirs = append(op.Dirs, perm[j])
			op.Sizes = append(op.Sizes, vfGenSize(t, "psize"))
			op.Spell = append(op.Spell, rapid.SampledFrom([]int{0, 0, 0, 1, 2, 3}).Draw(t, "spell"))
		}
		if rapid.IntRange(0, 5).Draw(t, "pover") == 0 {
			op.OverI = rapid.IntRange(1, nd).Draw(t, "poverI")
		}
		if rapid.IntRange(0, 11).Draw(t, "mismatch") == 0 {
			op.Sizes = op.Sizes[:len(op.Sizes)-1]
		}
	case "bl":
		op.BL = map[int]int{}
		for _, bl := range rapid.SliceOfNDistinct(rapid.SampledFrom([]int{24, 26, 28, 30, 32}), 1, 3, func(i int) int { return i }).Draw(t, "bls") {
			op.BL[bl] = rapid.IntRange(0, 3).Draw(t, "cnt")
		}
	case "remove", "delete", "mine":
		op.N = rapid.IntRange(0, 5).Draw(t, "which")
	}
	return op
}

func vfGenC15(t *rapid.T) vfC15Case {
	c := vfC15Case{NDirs: rapid.IntRange(1, 3).Draw(t, "ndirs")}
	all := []string{"size", "size", "size", "path", "path", "bl", "flags", "remove", "delete", "restart", "restart", "plotted", "mine", "mine"}
	conf := []string{"size", "size", "path", "bl", "flags"}
	if rapid.IntRange(0, 2).Draw(t, "miningScenario") == 0 {
		// some spaces exist, become plotted, are selected again and mined; then anything (re-configurations above all)
		if rapid.Bool().Draw(t, "preBL") {
			c.Ops = append(c.Ops, vfC15Op{K: "bl", BL: map[int]int{24: rapid.IntRange(1, 3).Draw(t, "pre24"), 26: rapid.IntRange(0, 1).Draw(t, "pre26")}})
		} else {
			c.Ops = append(c.Ops, vfC15Op{K: "size", Size: uint64(rapid.IntRange(1, 4).Draw(t, "preK")) * vfPlotSize(24)})
		}
		if rapid.Bool().Draw(t, "pre2") {
			c.Ops = append(c.Ops, vfGenC15Op(t, &c, conf))
		}
		c.Ops = append(c.Ops, vfC15Op{K: "plotted"})
		c.Ops = append(c.Ops, vfGenC15Op(t, &c, []string{"flags", "flags", "flags", "size", "bl"}))
		for i, n := 0, rapid.IntRange(1, 2).Draw(t, "nmine"); i < n; i++ {
			c.Ops = append(c.Ops, vfC15Op{K: "mine", N: rapid.IntRange(0, 5).Draw(t, "which")})
		}
		for i, n := 0, rapid.IntRange(1, 3).Draw(t, "npost"); i < n; i++ {
			c.Ops = append(c.Ops, vfGenC15Op(t, &c, all))
		}
		return c
	}
	n := rapid.IntRange(1, 7).Draw(t, "nops")
	for i := 0; i < n; i++ {
		c.Ops = append(c.Ops, vfGenC15Op(t, &c, all))
	}
	return c
}

// vfReadyDB is a real massdb.v1 header-only plot file that reports itself plotted once the case has declared it so:
// plotting 2^24 entries for real takes too long per case, and the configuration code only looks at the state.
type vfReadyDB struct {
	massdb.MassDB
	forced map[string]bool
	key    string
}

func (d *vfReadyDB) Ready() bool {
	if d.forced[d.key] {
		return true
	}
	return d.MassDB.Ready()
}

func (d *vfReadyDB) Progress() (bool, bool, float64) {
	if d.forced[d.key] {
		return true, true, 100
	}
	return d.MassDB.Progress()
}

// vfInstallReadyWrap wraps the registered massdb.v1 backend for the duration of one case.
func vfInstallReadyWrap(forced map[string]bool) func() {
	vfBackendMu.Lock()
	idx := -1
	for i, b := range massdb.DBBackendList {
		if b.Typ == typeMassDBV1 {
			idx = i
		}
	}
	if idx < 0 {
		vfBackendMu.Unlock()
		return func() {}
	}
	old := massdb.DBBackendList[idx]
	wrap := func(f func(args ...interface{}) (massdb.MassDB, error)) func(args ...interface{}) (massdb.MassDB, error) {
		return func(args ...interface{}) (massdb.MassDB, error) {
			d, err := f(args...)
			if err != nil || d == nil {
				return d, err
			}
			return &vfReadyDB{MassDB: d, forced: forced, key: vfSidOf(args[2].(*pocec.PublicKey), args[3].(int))}, nil
		}
	}
	massdb.DBBackendList[idx].OpenDB = wrap(old.OpenDB)
	massdb.DBBackendList[idx].CreateDB = wrap(old.CreateDB)
	return func() {
		massdb.DBBackendList[idx] = old
		vfBackendMu.Unlock()
	}
}

func vfC15Run(c vfC15Case, ctx *vlib.Ctx) *vlib.Failure {
	vfSetup()
	forced := map[string]bool{}
	defer vfInstallReadyWrap(forced)()
	root, err := os.MkdirTemp("", "vfc15")
	if err != nil {
		panic(err)
	}
	defer os.RemoveAll(root)
	var dirs []string
	for i := 0; i < c.NDirs; i++ {
		d := filepath.Join(root, fmt.Sprintf("plots%d", i))
		os.MkdirAll(d, 0o755)
		dirs = append(dirs, d)
	}
	w, err := vfNewWallet(root, 0x15)
	if err != nil {
		return vlib.Failf("harness:wallet", "%v", err)
	}
	defer w.close()
	sk, err := vfNewKeeper(w, dirs)
	if err != nil {
		return vlib.Failf("harness:keeper", "%v", err)
	}
	defer func() { vfCloseKeeper(sk) }()
	s24 := vfPlotSize(24)
	free := func(dir string) uint64 {
		u, err := disk.Usage(dir)
		if err != nil {
			return 0
		}
		return u.Free
	}
	mixed, multiDir, rejectPath, miningReconf := false, false, false, false
	restartKeeper := func(where string) *vlib.Failure {
		vfCloseKeeper(sk)
		sk = nil
		sk2, err := vfNewKeeper(w, dirs)
		if err != nil {
			return vlib.Failf("restart-failed", "%s: %v", where, err)
		}
		sk = sk2
		return nil
	}
	// every space ever created and not deleted: sid -> info (the restart oracle)
	alive := map[string]engine.WorkSpaceInfo{}
	var lastSelection []engine.WorkSpaceInfo

	indexed := func() map[string]*WorkSpace { return sk.workSpaceIndex[allState].Items() }

	for oi, op := range c.Ops {
		where := fmt.Sprintf("op#%d %s", oi, op.K)
		before := vfListDir(dirs)
		keysBefore := w.externalCount()
		idxBefore := indexed()
		judge := func(result []engine.WorkSpaceInfo, err error, targets map[string]uint64, genDirs map[string]bool, reqDesc string) *vlib.Failure {
			after := vfListDir(dirs)
			added, removed, changed := vfDirDiff(before, after)
			if len(removed) > 0 || len(changed) > 0 {
				return vlib.Failf("configure:altered-existing-files", "%s %s: removed %v changed %v", where, reqDesc, removed, changed)
			}
			if err != nil {
				rejectPath = true
				if len(added) > 0 || w.externalCount() != keysBefore {
					return vlib.Failf("configure:rejected-request-created-files", "%s %s: returned error %q but created %d file(s) %v and consumed %d wallet key(s)", where, reqDesc, err, len(added), vfBase(added), w.externalCount()-keysBefore)
				}
				ctx.Label("rejected:" + strings.SplitN(err.Error(), ":", 2)[0])
				return nil
			}
			for _, p := range added {
				if !genDirs[filepath.Dir(p)] {
					return vlib.Failf("configure:file-outside-requested-dirs", "%s %s: created %s", where, reqDesc, p)
				}
			}
			// per target directory (or overall) size bounds
			sums := map[string]uint64{}
			sel := map[string]bool{}
			for _, r := range result {
				ws, ok := indexed()[r.SpaceID]
				if !ok {
					return vlib.Failf("configure:result-not-indexed", "%s %s: result lists %s which is not indexed", where, reqDesc, r.SpaceID)
				}
				if sel[r.SpaceID] {
					return vlib.Failf("configure:space-selected-twice", "%s %s: %s", where, reqDesc, r.SpaceID)
				}
				sel[r.SpaceID] = true
				key := "*"
				if _, per := targets[ws.rootDir]; per {
					key = ws.rootDir
				}
				sums[key] += vfPlotSize(r.BitLength)
			}
			for key, target := range targets {
				if sums[key] > target {
					return vlib.Failf("configure:exceeds-request", "%s %s: selected %d bytes for %s, requested %d", where, reqDesc, sums[key], key, target)
				}
				if target-sums[key] >= s24 {
					return vlib.Failf("configure:shortfall-too-large", "%s %s: selected %d bytes for %s, requested %d, shortfall %d >= smallest plot size %d", where, reqDesc, sums[key], key, target, target-sums[key], s24)
				}
			}
			// reuse before create: no new space of bit length b while an indexed unselected space of b exists in an allowed directory
			for sid, ws := range indexed() {
				if _, old := idxBefore[sid]; old {
					continue
				}
				if !sel[sid] {
					return vlib.Failf("configure:created-but-not-selected", "%s %s: new space %s is not part of the result", where, reqDesc, sid)
				}
				for osid, ows := range idxBefore {
					if !sel[osid] && ows.id.bitLength == ws.id.bitLength && genDirs[ows.rootDir] && (len(targets) == 0 || targets["*"] != 0 || ows.rootDir == ws.rootDir) {
						return vlib.Failf("configure:created-although-reusable-space-exists", "%s %s: created %s (bl %d) although indexed space %s of the same bit length in %s was left unselected", where, reqDesc, sid, ws.id.bitLength, osid, ows.rootDir)
					}
				}
				mixedNow := false
				for osid := range idxBefore {
					if sel[osid] {
						mixedNow = true
					}
				}
				if mixedNow {
					mixed = true
				}
			}
			for _, ows := range idxBefore {
				if ows.state == engine.Mining {
					miningReconf = true
				}
			}
			// the per-directory listing (the answer of the configure-by-directories API) shows the same selection
			bdDirs, bdInfos, bdErr := sk.WorkSpaceInfosByDirs()
			if bdErr != nil {
				return vlib.Failf("configure:by-dirs-listing-failed", "%s %s: %v", where, reqDesc, bdErr)
			}
			bdSums := map[string]uint64{}
			for i, d := range bdDirs {
				for _, in := range bdInfos[i] {
					if !sel[in.SpaceID] {
						return vlib.Failf("configure:deselected-space-still-listed", "%s %s: WorkSpaceInfosByDirs lists %s under %s, which is not part of the selection just returned", where, reqDesc, in.SpaceID, filepath.Base(d))
					}
					bdSums[d] += vfPlotSize(in.BitLength)
				}
			}
			for key, target := range targets {
				if key != "*" && bdSums[key] > target {
					return vlib.Failf("configure:exceeds-request", "%s %s: the per-directory listing shows %d bytes for %s, requested %d", where, reqDesc, bdSums[key], key, target)
				}
			}
			// a space that dropped out of the selection is not in use any more
			for osid := range indexed() {
				if !sel[osid] {
					if err := sk.ActOnWorkSpace(osid, engine.Stop); err != ErrWorkSpaceDoesNotExist {
						return vlib.Failf("configure:deselected-space-still-in-use", "%s %s: stop(%s) on a space outside the selection returned %v, want %v", where, reqDesc, osid, err, ErrWorkSpaceDoesNotExist)
					}
				}
			}
			// the keeper's own view equals the result
			ids, _ := sk.WorkSpaceIDs(engine.SFAll)
			sort.Strings(ids)
			var rids []string
			for _, r := range result {
				rids = append(rids, r.SpaceID)
			}
			sort.Strings(rids)
			if strings.Join(ids, ",") != strings.Join(rids, ",") {
				return vlib.Failf("configure:list-differs-from-result", "%s %s: WorkSpaceIDs %v, result %v", where, reqDesc, ids, rids)
			}
			for sid, ws := range indexed() {
				alive[sid] = ws.Info()
			}
			lastSelection = result
			return nil
		}
		switch op.K {
		case "size":
			target := op.Size
			if op.Over {
				target = free(sk.dbDirs[0]) + op.Size + s24 + vfOverMargin
			}
			res, err := sk.ConfigureBySize(target, false, false)
			if target < s24 && err == nil {
				return vlib.Failf("configure:below-minimum-accepted", "%s: ConfigureBySize(%d) succeeded, minimum is %d", where, target, s24)
			}
			if f := judge(res, err, map[string]uint64{"*": target}, map[string]bool{sk.dbDirs[0]: true}, fmt.Sprintf("ConfigureBySize(%d)", target)); f != nil {
				return f
			}
		case "path":
			var paths []string
			sizes := make([]int, len(op.Sizes))
			targets := map[string]uint64{}
			gen := map[string]bool{}
			var cleanPaths []string
			for j, di := range op.Dirs {
				d := dirs[di]
				sp := d
				if j < len(op.Spell) {
					switch op.Spell[j] {
					case 1:
						sp = d + "/"
					case 2:
						sp = filepath.Dir(d) + "/./" + filepath.Base(d)
					case 3:
						sp = d + "/../" + filepath.Base(d)
					}
				}
				if sp != d {
					ctx.Label("path-spelled-differently")
				}
				paths = append(paths, sp)
				cleanPaths = append(cleanPaths, d)
				gen[d] = true
			}
			for i, s := range op.Sizes {
				if op.OverI == i+1 && i < len(paths) {
					s = free(cleanPaths[i]) + s + s24 + vfOverMargin
				}
				sizes[i] = int(s)
				if i < len(paths) {
					targets[cleanPaths[i]] = s
				}
			}
			if len(paths) > 1 {
				multiDir = true
			}
			res, err := sk.ConfigureByPath(paths, sizes, false, false)
			if len(paths) != len(sizes) && err == nil {
				return vlib.Failf("configure:mismatched-path-sizes-accepted", "%s", where)
			}
			if f := judge(res, err, targets, gen, fmt.Sprintf("ConfigureByPath(%v,%v)", vfBase(paths), sizes)); f != nil {
				return f
			}
		case "bl":
			res, err := sk.ConfigureByBitLength(op.BL, false, false)
			total := 0
			for _, n := range op.BL {
				total += n
			}
			if err == nil {
				got := map[int]int{}
				for _, r := range res {
					got[r.BitLength]++
				}
				for bl, n := range op.BL {
					if got[bl] != n {
						return vlib.Failf("configure:wrong-count", "%s: ConfigureByBitLength(%v) returned %d spaces of bit length %d", where, op.BL, got[bl], bl)
					}
				}
				for bl := range got {
					if _, ok := op.BL[bl]; !ok {
						return vlib.Failf("configure:wrong-count", "%s: ConfigureByBitLength(%v) returned a space of bit length %d", where, op.BL, bl)
					}
				}
			} else if total > 0 && err != ErrSpaceKeeperConfiguredNothing {
				ctx.Label("bl-rejected")
			}
			if f := judge(res, err, map[string]uint64{}, map[string]bool{sk.dbDirs[0]: true}, fmt.Sprintf("ConfigureByBitLength(%v)", op.BL)); f != nil {
				return f
			}
		case "flags":
			res, err := sk.ConfigureByFlags(engine.SFAll, false, false)
			if err == nil && len(res) != len(indexed()) {
				return vlib.Failf("configure:flags-count", "%s: ConfigureByFlags(all) returned %d of %d indexed spaces", where, len(res), len(indexed()))
			}
			if f := judge(res, err, map[string]uint64{}, map[string]bool{}, "ConfigureByFlags(all)"); f != nil {
				return f
			}
		case "remove", "delete":
			ids, _ := sk.WorkSpaceIDs(engine.SFAll)
			if len(ids) == 0 {
				ctx.Label("remove-without-space")
				continue
			}
			sort.Strings(ids)
			sid := ids[op.N%len(ids)]
			ws := indexed()[sid]
			if ws == nil {
				return vlib.Failf("configure:result-not-indexed", "%s: WorkSpaceIDs lists %s which is not indexed", where, sid)
			}
			act := engine.Remove
			if op.K == "delete" {
				act = engine.Delete
			}
			if ws.state == engine.Mining {
				if err := sk.ActOnWorkSpace(sid, act); err == nil {
					return vlib.Failf("remove-accepted-while-mining", "%s: %v on %s", where, act, sid)
				}
				ctx.Label("remove-refused-mining")
				continue
			}
			if err := sk.ActOnWorkSpace(sid, act); err != nil {
				return vlib.Failf("action-refused", "%s: %v on a %v space: %v", where, act, ws.state, err)
			}
			after := vfListDir(dirs)
			_, removed, changed := vfDirDiff(before, after)
			if op.K == "remove" && (len(removed) > 0 || len(changed) > 0) {
				return vlib.Failf("remove-erased-files", "%s: %v %v", where, removed, changed)
			}
			if op.K == "delete" {
				delete(alive, sid)
				for _, p := range removed {
					if !strings.Contains(strings.ToLower(filepath.Base(p)), strings.ToLower(strings.SplitN(sid, "-", 2)[0])) || filepath.Dir(p) != ws.rootDir {
						return vlib.Failf("delete-erased-other-files", "%s: deleting %s removed %s", where, sid, p)
					}
				}
				if len(removed) != 2 {
					return vlib.Failf("delete-did-not-erase-both-files", "%s: deleting %s removed %v", where, sid, vfBase(removed))
				}
			}
		case "restart":
			if f := restartKeeper(where); f != nil {
				return f
			}
			got := indexed()
			for sid, info := range alive {
				ws, ok := got[sid]
				if !ok {
					return vlib.Failf("restart:space-not-found-again", "%s: space %s (ordinal %d) exists on disk but the restarted keeper did not index it", where, sid, info.Ordinal)
				}
				want := engine.Registered // the state comes from the plot file again
				if forced[sid] {
					want = engine.Ready
				}
				info.State = want
				if ws.id.ordinal != info.Ordinal || ws.id.bitLength != info.BitLength || ws.state != want {
					return vlib.Failf("restart:space-differs", "%s: %s re-indexed as ordinal %d bl %d state %v, was %s", where, sid, ws.id.ordinal, ws.id.bitLength, ws.state, vfInfoKey(info))
				}
			}
			for sid := range got {
				if _, ok := alive[sid]; !ok {
					return vlib.Failf("restart:unknown-space-indexed", "%s: %s", where, sid)
				}
			}
			for _, s := range lastSelection {
				if _, deleted := alive[s.SpaceID]; !deleted {
					continue
				}
				if _, ok := got[s.SpaceID]; !ok {
					return vlib.Failf("restart:selection-not-found", "%s: selected space %s not found after restart", where, s.SpaceID)
				}
			}
			ctx.Label("restart")
		case "plotted":
			// every existing space counts as plotted from now on; the keeper learns it the way it does in
			// production, by loading the files again
			for sid := range indexed() {
				forced[sid] = true
			}
			if f := restartKeeper(where); f != nil {
				return f
			}
			for sid, ws := range indexed() {
				if forced[sid] && ws.state != engine.Ready {
					return vlib.Failf("restart:space-differs", "%s: plotted space %s indexed as %v", where, sid, ws.state)
				}
			}
			lastSelection = nil
			ctx.Label("plotted")
		case "mine":
			ids, _ := sk.WorkSpaceIDs(engine.SFReady)
			if len(ids) == 0 {
				ctx.Label("mine-without-ready-space")
				continue
			}
			sort.Strings(ids)
			sid := ids[op.N%len(ids)]
			if err := sk.ActOnWorkSpace(sid, engine.Mine); err != nil {
				return vlib.Failf("action-refused", "%s: mine on a ready space: %v", where, err)
			}
			if ws := indexed()[sid]; ws.state != engine.Mining {
				return vlib.Failf("mine-did-not-move-ready-space", "%s: %s is %v", where, sid, ws.state)
			}
			ctx.Label("mine")
		}
	}
	if mixed {
		ctx.Label("mixed-existing-and-new")
	}
	if multiDir {
		ctx.Label("multi-dir")
	}
	if rejectPath {
		ctx.Label("reject-path")
	}
	if miningReconf {
		ctx.Label("reconfigured-with-mining-space")
	}
	if mixed || multiDir || rejectPath || miningReconf {
		ctx.NonTrivial()
	}
	return nil
}

func vfBase(ps []string) []string {
	var out []string
	for _, p := range ps {
		out = append(out, filepath.Base(filepath.Dir(p))+"/"+filepath.Base(p))
	}
	return out
}

var vfC15Spec = vlib.Spec[vfC15Case]{
	Prop: "C15", Name: "configure-capacity",
	Rule: "1-3 plot directories, 1-7 operations from {ConfigureBySize, ConfigureByPath (1-3 dirs, sizes per dir, mismatched lists, directories also given with a trailing slash, a /./ element or /x/../x), ConfigureByBitLength (bit lengths 24..32), ConfigureByFlags, remove, delete, restart (second keeper on the same directories and wallet), plotted (existing spaces report themselves plotted from now on), mine (ready -> mining)}; sizes around k*PlotSize(24), sums of plot sizes +-1, below the minimum, free disk space + delta for the reject path; real massdb.v1 header files and a real wallet; oracles: selected total <= request and shortfall < PlotSize(24) (per directory for ByPath), no new space while an indexed unselected space of that bit length exists in an allowed directory, new files only under requested directories, exact counts for ByBitLength, the per-directory listing shows only the selection and stays within the per-directory request, a de-selected space refuses actions, rejected requests leave directory listing and wallet key counter unchanged, no existing file altered, a restarted keeper re-indexes exactly the surviving spaces with the same ordinal/bit length/state; non-trivial = a request satisfied by mixing existing and new spaces, or a multi-directory request, or a reject path, or a re-configuration while a space is mining; distinct = distinct case JSON",
	Gen:  vfGenC15, Run: vfC15Run,
}

func TestVerif_C15(t *testing.T) { vlib.Both(t, vfC15Spec) }
