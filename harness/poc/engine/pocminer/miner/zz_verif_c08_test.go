package miner

// C08 — the miner submits only winning, correctly signed blocks at the earliest slot (DESIGN.md §4 C08).
//
// Started miners (the real generateBlocks loop, real time) run against a scripted Chain, SyncManager and
// SpaceKeeper. Valid proofs are real BL=24 proofs (fixture, re-verified with the chain library on load). The
// oracle is content based: it recomputes, from what was offered and from the scripted target function, which
// slot and which proof had to win, and compares with every block handed to ProcessBlock. Time enters only
// one-sided ("not before its timestamp", "no slot beyond the look-ahead when it was signed", "nothing after
// Stop returned") or through the miner's own decision to ask for the next template.

import (
	"context"
	"crypto/sha256"
	"encoding/binary"
	"encoding/hex"
	"encoding/json"
	"errors"
	"fmt"
	"math/big"
	"os"
	"path/filepath"
	"runtime"
	"sort"
	"strings"
	"sync"
	"testing"
	"time"

	"github.com/massnetorg/mass-core/blockchain"
	"github.com/massnetorg/mass-core/config"
	"github.com/massnetorg/mass-core/consensus/forks"
	"github.com/massnetorg/mass-core/logging"
	"github.com/massnetorg/mass-core/massutil"
	"github.com/massnetorg/mass-core/poc"
	"github.com/massnetorg/mass-core/poc/chiapos"
	"github.com/massnetorg/mass-core/poc/pocutil"
	"github.com/massnetorg/mass-core/pocec"
	"github.com/massnetorg/mass-core/wire"
	"massnet.org/mass/poc/engine"
	"massnet.org/mass/poc/engine/spacekeeper"

	"pgregory.net/rapid"
	"verif/vlib"
)

// ---- fixture ---------------------------------------------------------------------------------------------

type vfKey struct {
	priv  *pocec.PrivateKey
	pub   *pocec.PublicKey
	pkh   pocutil.Hash
	proof *poc.DefaultProof
	sid   string
}

type vfChal struct {
	h    pocutil.Hash
	pass uint // bit i: key i passes the plot filter for this challenge
}

type vfFix struct {
	bl     int
	z      uint64
	keys   []*vfKey
	multi  []vfChal // >= 2 keys pass the filter
	single []vfChal // exactly one
	none   []vfChal
}

var (
	vfFixOnce sync.Once
	vfFixV    *vfFix
	vfFixErr  error
)

func vfChallengeWith(z uint64, seed []byte) pocutil.Hash {
	h := sha256.Sum256(seed)
	h[0], h[1], h[2] = byte(z), byte(z>>8), byte(z>>16)
	return pocutil.Hash(h)
}

func vfLoadFix() (*vfFix, error) {
	vfFixOnce.Do(func() {
		tmpBase := os.Getenv("TMPDIR")
		if tmpBase == "" {
			tmpBase = os.TempDir()
		}
		ld := filepath.Join(tmpBase, fmt.Sprintf("vfminerlog-%d", os.Getpid()))
		os.MkdirAll(ld, 0o755)
		logging.Init(ld, "vf.log", "error", 0, true)
		root := os.Getenv("VERIF_ROOT")
		if root == "" {
			root = "/verif"
		}
		b, err := os.ReadFile(filepath.Join(root, "harness", "fixtures", "c08_proofs.json"))
		if err != nil {
			vfFixErr = err
			return
		}
		var raw struct {
			BL     int    `json:"bl"`
			Z      uint64 `json:"z"`
			Proofs []struct {
				Scalar string `json:"scalar"`
				X      uint64 `json:"x"`
				XP     uint64 `json:"xp"`
			} `json:"proofs"`
		}
		if err := json.Unmarshal(b, &raw); err != nil {
			vfFixErr = err
			return
		}
		fx := &vfFix{bl: raw.BL, z: raw.Z}
		base := vfChallengeWith(raw.Z, []byte("base"))
		for i, p := range raw.Proofs {
			sc, err := hex.DecodeString(p.Scalar)
			if err != nil {
				vfFixErr = err
				return
			}
			d := new(big.Int).SetBytes(sc)
			d.Mod(d, new(big.Int).Sub(pocec.S256().N, big.NewInt(1)))
			d.Add(d, big.NewInt(1))
			priv, pub := pocec.PrivKeyFromBytes(pocec.S256(), d.Bytes())
			k := &vfKey{priv: priv, pub: pub, pkh: pocutil.PubKeyHash(pub),
				proof: poc.NewDefaultProof(pocutil.PoCValue2Bytes(pocutil.PoCValue(p.X), raw.BL), pocutil.PoCValue2Bytes(pocutil.PoCValue(p.XP), raw.BL), raw.BL),
				sid:   fmt.Sprintf("%s-%d", hex.EncodeToString(pub.SerializeCompressed()), raw.BL)}
			// never trusted: every fixture proof must verify with the chain library
			if err := poc.VerifyProof(k.proof, k.pkh, base, false); err != nil {
				vfFixErr = fmt.Errorf("fixture proof %d does not verify: %v", i, err)
				return
			}
			fx.keys = append(fx.keys, k)
		}
		if len(fx.keys) < 4 {
			vfFixErr = fmt.Errorf("fixture has %d proofs", len(fx.keys))
			return
		}
		// challenges with the fixture's prefix, classified by which keys pass the plot filter (MASSIP0002 heights)
		var ctr [8]byte
		for i := uint64(0); i < 6_000_000 && (len(fx.multi) < 6 || len(fx.single) < 6 || len(fx.none) < 3); i++ {
			binary.LittleEndian.PutUint64(ctr[:], i)
			c := vfChallengeWith(raw.Z, append([]byte("vf-c08-"), ctr[:]...))
			var pass uint
			n := 0
			for ki, k := range fx.keys {
				if chiapos.PassPlotFilter(k.pkh, c) {
					pass |= 1 << uint(ki)
					n++
				}
			}
			switch {
			case n >= 2 && len(fx.multi) < 6:
				fx.multi = append(fx.multi, vfChal{c, pass})
			case n == 1 && len(fx.single) < 6:
				fx.single = append(fx.single, vfChal{c, pass})
			case n == 0 && len(fx.none) < 3:
				fx.none = append(fx.none, vfChal{c, pass})
			}
		}
		if len(fx.multi) == 0 || len(fx.single) == 0 || len(fx.none) == 0 {
			vfFixErr = fmt.Errorf("challenge search failed: %d/%d/%d", len(fx.multi), len(fx.single), len(fx.none))
			return
		}
		vfFixV = fx
	})
	return vfFixV, vfFixErr
}

func (fx *vfFix) challenge(class string, idx int) vfChal {
	switch class {
	case "multi":
		return fx.multi[idx%len(fx.multi)]
	case "single":
		return fx.single[idx%len(fx.single)]
	}
	return fx.none[idx%len(fx.none)]
}

// ---- case ------------------------------------------------------------------------------------------------

type vfTargetRule struct {
	Kind  string `json:"k"` // inf | zero | rank
	Rank  int    `json:"r,omitempty"`
	Delta int    `json:"d,omitempty"`
}

type vfRound struct {
	Height    uint64         `json:"height"`
	ChalClass string         `json:"chalClass"` // multi | single | none (only matters when the height enforces the plot filter)
	ChalIdx   int            `json:"chalIdx"`
	T0OffSec  int            `json:"t0OffSec"` // template time relative to the moment the template is requested
	Proofs    []string       `json:"proofs"`   // per fixture key: absent | ok | unbound | error | wrongx | wrongkey
	Targets   []vfTargetRule `json:"targets"`  // per slot counted from the template time; the last one repeats
	Event     string         `json:"event,omitempty"`
	TipKind   int            `json:"tipKind,omitempty"`
	DelayMs   int            `json:"delayMs,omitempty"`
	Result    string         `json:"result"` // accept | orphan | error
}

type vfMinerScript struct {
	Rounds []vfRound `json:"rounds"`
}

type vfC08Case struct {
	Miners []vfMinerScript `json:"miners"`
}

func vfGenRound(t *rapid.T, prev *vfRound, earlier []uint64) vfRound {
	r := vfRound{}
	if prev != nil && rapid.IntRange(0, 2).Draw(t, "sameHeight") == 0 {
		r.Height = rapid.SampledFrom(earlier).Draw(t, "earlierHeight")
	} else {
		r.Height = rapid.SampledFrom([]uint64{50, 51, 7000, 1404800, 1404801, 1404802, 1500000}).Draw(t, "height")
	}
	r.ChalClass = rapid.SampledFrom([]string{"multi", "multi", "multi", "multi", "single", "single", "none"}).Draw(t, "chalClass")
	r.ChalIdx = rapid.IntRange(0, 5).Draw(t, "chalIdx")
	r.T0OffSec = rapid.IntRange(-15, 4).Draw(t, "t0")
	for i := 0; i < 6; i++ {
		kind := "ok"
		switch x := rapid.IntRange(0, 99).Draw(t, "proof"); {
		case x < 14:
			kind = "absent"
		case x < 26:
			kind = "unbound"
		case x < 34:
			kind = "error"
		case x < 36:
			kind = "wrongx"
		case x < 38:
			kind = "wrongkey"
		}
		r.Proofs = append(r.Proofs, kind)
	}
	n := rapid.IntRange(0, 4).Draw(t, "nTargets")
	for i := 0; i < n; i++ {
		switch rapid.IntRange(0, 9).Draw(t, "tk") {
		case 0, 1, 2, 3:
			r.Targets = append(r.Targets, vfTargetRule{Kind: "inf"})
		case 4:
			r.Targets = append(r.Targets, vfTargetRule{Kind: "zero"})
		default:
			r.Targets = append(r.Targets, vfTargetRule{Kind: "rank", Rank: rapid.IntRange(0, 1).Draw(t, "rank"), Delta: rapid.IntRange(-1, 1).Draw(t, "delta")})
		}
	}
	r.Targets = append(r.Targets, vfTargetRule{Kind: "zero"})
	r.Result = rapid.SampledFrom([]string{"accept", "accept", "accept", "accept", "orphan", "error"}).Draw(t, "result")
	switch rapid.IntRange(0, 19).Draw(t, "event") {
	case 0:
		r.Event = "tip-better"
	case 1:
		r.Event = "tip-notbetter"
	case 2:
		r.Event = "stop"
	case 3:
		r.Event = "switched"
	case 4:
		r.Event = "tip-moved" // a not-better notification, then the chain moves past the parent: the waiter cannot be re-armed
	case 5, 6:
		r.Event = "restart" // Stop()+Start() right after the template was handed out; nothing else special
	case 7, 8:
		r.Event = "stop-holding" // Stop() while the miner holds a block back until its timestamp
	}
	if r.Event == "stop-holding" {
		// the template's own slot is eligible and lies one slot ahead: the block is found at once and held back
		r.Height = rapid.SampledFrom([]uint64{70, 71, 9100}).Draw(t, "shHeight")
		for _, h := range earlier {
			if h == r.Height {
				r.Height += 100
			}
		}
		r.T0OffSec = rapid.IntRange(2, 5).Draw(t, "shT0")
		r.Targets = []vfTargetRule{{Kind: "zero"}}
		for i := range r.Proofs {
			if r.Proofs[i] == "wrongx" || r.Proofs[i] == "wrongkey" {
				r.Proofs[i] = "ok"
			}
		}
		r.Proofs[rapid.IntRange(0, 5).Draw(t, "shOk")] = "ok"
		r.DelayMs = rapid.SampledFrom([]int{900, 1300, 1800, 2500}).Draw(t, "shDelay")
	}
	if r.Event == "tip-better" || r.Event == "stop" || r.Event == "tip-moved" {
		// the first eligible slot lies so far ahead that the miner cannot have reached it when the event arrives
		r.Height = rapid.SampledFrom([]uint64{60, 61, 9000}).Draw(t, "evHeight")
		for _, h := range earlier {
			if h == r.Height {
				r.Height += 100
			}
		}
		r.T0OffSec = rapid.IntRange(0, 2).Draw(t, "evT0")
		infs := rapid.IntRange(4, 5).Draw(t, "evInf")
		r.Targets = nil
		for i := 0; i < infs; i++ {
			r.Targets = append(r.Targets, vfTargetRule{Kind: "inf"})
		}
		r.Targets = append(r.Targets, vfTargetRule{Kind: "zero"})
		for i := range r.Proofs {
			if r.Proofs[i] == "wrongx" || r.Proofs[i] == "wrongkey" {
				r.Proofs[i] = "ok"
			}
		}
		r.Proofs[rapid.IntRange(0, 5).Draw(t, "evOk")] = "ok"
		r.DelayMs = rapid.SampledFrom([]int{0, 0, 50, 400, 900}).Draw(t, "evDelay")
	}
	if r.Event != "" {
		r.TipKind = rapid.IntRange(0, 3).Draw(t, "tipKind")
	}
	return r
}

func vfGenC08(t *rapid.T) vfC08Case {
	var c vfC08Case
	nm := rapid.IntRange(8, 12).Draw(t, "miners")
	for i := 0; i < nm; i++ {
		var ms vfMinerScript
		nr := rapid.IntRange(1, 4).Draw(t, "rounds")
		var prev *vfRound
		var earlier []uint64
		for j := 0; j < nr; j++ {
			r := vfGenRound(t, prev, earlier)
			ms.Rounds = append(ms.Rounds, r)
			prev = &ms.Rounds[len(ms.Rounds)-1]
			earlier = append(earlier, r.Height)
		}
		c.Miners = append(c.Miners, ms)
	}
	return c
}

// ---- scripted world ------------------------------------------------------------------------------------------

type vfSubmitted struct {
	header  wire.BlockHeader
	cbValue int64
	hash    wire.Hash
	tEnter  time.Time
	result  string
}

type vfSign struct {
	sid string
	t   time.Time
}

type vfRoundRT struct {
	spec     vfRound
	mi, ri   int
	prev     wire.Hash
	t0       time.Time
	chal     pocutil.Hash
	pass     uint
	filter   bool
	offered  []*engine.WorkSpaceProof
	offKey   []int    // fixture key each offered entry claims
	offKind  []string // its kind
	elig     []int    // indexes into offered: Error == nil, verifies for the challenge, bound
	poisoned bool     // an entry with Error == nil that does not verify was offered: the code gives the round up
	unbound  map[int]bool
	tStart   time.Time
	tipSent  time.Time
	tipMoved time.Time
	signs    []vfSign
	blocks   []*vfSubmitted
	asked    bool
	badAsk   string
	ended    bool // the miner asked for another template (or was stopped) after this one
	stopCall time.Time
	stopRet  time.Time
	// disturbed: a Stop() of the harness fell into this round (it may not be the round the stop was generated for:
	// the miner may have finished that one and asked for the next template in the meantime)
	disturbed bool
	tcache    map[int]*big.Int
}

type vfWorld struct {
	mu         sync.Mutex
	fx         *vfFix
	mi         int
	script     []vfRound
	rounds     []*vfRoundRT
	cur        *vfRoundRT
	roundStart chan *vfRoundRT
	done       chan struct{}
	doneOnce   sync.Once
	closing    chan struct{}
	accepted   map[uint64]time.Time // height -> when ProcessBlock returned "accepted"
	violations []*vlib.Failure
	stops      [][2]time.Time // [returned, next Start called)
}

func (w *vfWorld) fail(f *vlib.Failure) {
	w.violations = append(w.violations, f)
}

var vfInf = new(big.Int).Lsh(big.NewInt(1), 200)

// the documented look-ahead: a slot may be tried when it is at most one slot ahead of the wall clock
const vfAllowAhead = 1

func vfSlot(t time.Time) uint64 { return uint64(t.Unix()) / pocSlot }

// quality of an offered entry at the slot of ts (chain library arithmetic; the selection logic is what is under test)
func (r *vfRoundRT) quality(i int, ts time.Time) *big.Int {
	return r.offered[i].Proof.Quality(vfSlot(ts), r.spec.Height)
}

// target is the scripted target function: k-th slot counted from the template time
func (r *vfRoundRT) target(k int) *big.Int {
	if k < 0 {
		k = 0
	}
	if v, ok := r.tcache[k]; ok {
		return new(big.Int).Set(v)
	}
	rule := r.spec.Targets[len(r.spec.Targets)-1]
	if k < len(r.spec.Targets) {
		rule = r.spec.Targets[k]
	}
	var v *big.Int
	switch rule.Kind {
	case "inf":
		v = new(big.Int).Set(vfInf)
	case "rank":
		ts := r.t0.Add(time.Duration(k) * pocSlot * time.Second)
		var qs []*big.Int
		for _, i := range r.elig {
			qs = append(qs, r.quality(i, ts))
		}
		sort.Slice(qs, func(a, b int) bool { return qs[a].Cmp(qs[b]) > 0 })
		if len(qs) == 0 {
			v = big.NewInt(0)
		} else {
			rk := rule.Rank
			if rk >= len(qs) {
				rk = len(qs) - 1
			}
			v = new(big.Int).Add(qs[rk], big.NewInt(int64(rule.Delta)))
			if v.Sign() < 0 {
				v = big.NewInt(0)
			}
		}
	default:
		v = big.NewInt(0)
	}
	r.tcache[k] = v
	return new(big.Int).Set(v)
}

func (r *vfRoundRT) slotIndex(t time.Time) (int, bool) {
	d := t.Sub(r.t0)
	step := pocSlot * time.Second
	if d < 0 || d%step != 0 {
		return int(d / step), false
	}
	return int(d / step), true
}

// bestAt returns the best eligible entry at slot index k and its quality (nil when nothing is eligible to compete)
func (r *vfRoundRT) bestAt(k int) (int, *big.Int) {
	ts := r.t0.Add(time.Duration(k) * pocSlot * time.Second)
	bi, bq := -1, big.NewInt(0)
	for _, i := range r.elig {
		if q := r.quality(i, ts); q.Cmp(bq) > 0 {
			bi, bq = i, q
		}
	}
	return bi, bq
}

// firstEligible is the reference decision: the first slot index whose best quality exceeds the target
func (r *vfRoundRT) firstEligible(limit int) int {
	for k := 0; k <= limit; k++ {
		if bi, bq := r.bestAt(k); bi >= 0 && bq.Cmp(r.target(k)) > 0 {
			return k
		}
	}
	return -1
}

func (w *vfWorld) newRound(spec vfRound, ri int) *vfRoundRT {
	fx := w.fx
	r := &vfRoundRT{spec: spec, mi: w.mi, ri: ri, unbound: map[int]bool{}, tcache: map[int]*big.Int{}}
	r.prev = wire.Hash(sha256.Sum256([]byte(fmt.Sprintf("prev-%d-%d-%d", w.mi, ri, time.Now().UnixNano()))))
	r.tStart = time.Now()
	r.t0 = time.Unix(r.tStart.Unix()+int64(spec.T0OffSec), 0)
	r.filter = forks.EnforceMASSIP0002(spec.Height)
	ch := fx.challenge(spec.ChalClass, spec.ChalIdx)
	r.chal, r.pass = ch.h, ch.pass
	for ki, kind := range spec.Proofs {
		if ki >= len(fx.keys) || kind == "absent" {
			continue
		}
		k := fx.keys[ki]
		p := &engine.WorkSpaceProof{SpaceID: k.sid, PublicKey: k.pub, Ordinal: int64(ki),
			Proof: poc.NewDefaultProof(append([]byte(nil), k.proof.X...), append([]byte(nil), k.proof.XPrime...), k.proof.BL)}
		switch kind {
		case "error":
			p.Proof, p.Error = nil, errors.New("scripted lookup failure")
		case "wrongx":
			p.Proof.X[0] ^= 1
		case "wrongkey":
			o := fx.keys[(ki+1)%len(fx.keys)]
			p.Proof = poc.NewDefaultProof(append([]byte(nil), o.proof.X...), append([]byte(nil), o.proof.XPrime...), o.proof.BL)
		case "unbound":
			r.unbound[ki] = true
		}
		if (kind == "ok" || kind == "unbound") && r.filter && r.pass&(1<<uint(ki)) == 0 {
			// what the real keeper answers for a space that does not pass the plot filter
			p.Proof, p.Error = nil, poc.ErrProofFilter
		}
		r.offered = append(r.offered, p)
		r.offKey = append(r.offKey, ki)
		r.offKind = append(r.offKind, kind)
	}
	for i, p := range r.offered {
		if p.Error != nil {
			continue
		}
		if err := poc.VerifyProof(p.Proof, pocutil.PubKeyHash(p.PublicKey), r.chal, r.filter); err != nil {
			r.poisoned = true
			continue
		}
		if r.unbound[r.offKey[i]] {
			continue
		}
		r.elig = append(r.elig, i)
	}
	return r
}

// --- Chain

func (w *vfWorld) BestBlockNode() *blockchain.BlockNode {
	w.mu.Lock()
	defer w.mu.Unlock()
	r := w.cur
	if r == nil {
		h := wire.Hash{}
		return &blockchain.BlockNode{Hash: &h, CapSum: big.NewInt(1000), Quality: big.NewInt(500), Timestamp: time.Unix(0, 0)}
	}
	h := r.prev
	if r.spec.Event == "switched" {
		h[0] ^= 0xff
	}
	return &blockchain.BlockNode{Hash: &h, Height: r.spec.Height - 1, CapSum: big.NewInt(1000), Quality: big.NewInt(500), Timestamp: r.t0.Add(-60 * time.Second)}
}

func (w *vfWorld) BestBlockHash() *wire.Hash { return w.BestBlockNode().Hash }
func (w *vfWorld) BestBlockHeight() uint64   { return w.BestBlockNode().Height }
func (w *vfWorld) ChainID() *wire.Hash       { return &wire.Hash{1} }

func vfTipNode(base *blockchain.BlockNode, better bool, kind int) *blockchain.BlockNode {
	n := &blockchain.BlockNode{Hash: &wire.Hash{9}, Height: base.Height, CapSum: new(big.Int).Set(base.CapSum), Quality: new(big.Int).Set(base.Quality), Timestamp: base.Timestamp}
	if better {
		switch kind % 3 {
		case 0:
			n.CapSum.Add(n.CapSum, big.NewInt(1))
		case 1:
			n.Timestamp = n.Timestamp.Add(-time.Second)
		default:
			n.Quality.Add(n.Quality, big.NewInt(1))
		}
	} else {
		switch kind % 4 {
		case 0:
			n.CapSum.Sub(n.CapSum, big.NewInt(1))
		case 1:
			n.Timestamp = n.Timestamp.Add(time.Second)
		case 2:
			// equal in every respect
		default:
			n.Quality.Sub(n.Quality, big.NewInt(1))
		}
	}
	return n
}

func (w *vfWorld) BlockWaiter(height uint64) (<-chan *blockchain.BlockNode, error) {
	ch := make(chan *blockchain.BlockNode)
	base := w.BestBlockNode()
	w.mu.Lock()
	defer w.mu.Unlock()
	r := w.cur
	if r != nil && r.spec.Event == "tip-moved" && !r.tipSent.IsZero() {
		// the not-better notification was delivered; meanwhile a block of the next height became the tip
		if r.tipMoved.IsZero() {
			r.tipMoved = time.Now()
		}
		return nil, errors.New("scripted chain: wait for old block height")
	}
	if r == nil || (r.spec.Event != "tip-better" && r.spec.Event != "tip-notbetter" && r.spec.Event != "tip-moved") || !r.tipSent.IsZero() {
		return ch, nil
	}
	r.tipSent = time.Unix(0, 1) // being sent
	go func() {
		if r.spec.DelayMs > 0 {
			time.Sleep(time.Duration(r.spec.DelayMs) * time.Millisecond)
		}
		select {
		case ch <- vfTipNode(base, r.spec.Event == "tip-better", r.spec.TipKind):
			w.mu.Lock()
			r.tipSent = time.Now()
			w.mu.Unlock()
		case <-w.closing:
		}
	}()
	return ch, nil
}

func (w *vfWorld) NewBlockTemplate(addrs []massutil.Address, ch chan interface{}) error {
	w.mu.Lock()
	if w.cur != nil {
		w.cur.ended = true
	}
	ri := len(w.rounds)
	if ri >= len(w.script) {
		w.cur = nil
		w.mu.Unlock()
		w.doneOnce.Do(func() { close(w.done) })
		return errors.New("scripted chain: no further template")
	}
	r := w.newRound(w.script[ri], ri)
	w.rounds = append(w.rounds, r)
	w.cur = r
	w.mu.Unlock()

	pt := &blockchain.PoCTemplate{
		Height:    r.spec.Height,
		Timestamp: r.t0,
		Previous:  r.prev,
		Challenge: wire.Hash(r.chal),
		GetTarget: func(t time.Time) *big.Int {
			w.mu.Lock()
			defer w.mu.Unlock()
			k, _ := r.slotIndex(t)
			return r.target(k)
		},
		PassBinding: func(p blockchain.Proof) bool {
			for ki, k := range w.fx.keys {
				if string(k.pub.SerializeCompressed()) == string(p.PlotPublicKey()) {
					return !r.unbound[ki]
				}
			}
			return false
		},
		GetCoinbase: func(p blockchain.Proof, fee massutil.Amount) (*massutil.Tx, error) {
			for ki, k := range w.fx.keys {
				if string(k.pub.SerializeCompressed()) == string(p.PlotPublicKey()) {
					return massutil.NewTx(vfCoinbase(int64(1000 + ki))), nil
				}
			}
			return nil, errors.New("no binding for this key")
		},
	}
	cb := vfCoinbase(999)
	hdr := wire.NewEmptyBlockHeader()
	hdr.ChainID = wire.Hash{1}
	hdr.Version = 1
	hdr.Height = r.spec.Height
	hdr.Timestamp = r.t0
	hdr.Previous = r.prev
	cbHash, cbWHash := cb.TxHash(), cb.WitnessHash()
	hdr.TransactionRoot, hdr.WitnessRoot = cbHash, cbWHash
	bt := &blockchain.BlockTemplate{
		Block:              &wire.MsgBlock{Header: *hdr, Transactions: []*wire.MsgTx{cb}},
		TotalFee:           massutil.ZeroAmount(),
		Height:             r.spec.Height,
		ValidPayAddress:    true,
		MerkleCache:        []*wire.Hash{&cbHash},
		WitnessMerkleCache: []*wire.Hash{&cbWHash},
	}
	ch <- pt
	ch <- bt
	select {
	case w.roundStart <- r:
	case <-w.closing:
	}
	return nil
}

func vfCoinbase(v int64) *wire.MsgTx {
	tx := wire.NewMsgTx()
	tx.AddTxIn(wire.NewTxIn(wire.NewOutPoint(&wire.Hash{}, wire.MaxPrevOutIndex), nil))
	tx.AddTxOut(wire.NewTxOut(v, []byte{0, 32, 1, 2, 3}))
	return tx
}

func (w *vfWorld) ProcessBlock(b *massutil.Block) (bool, error) {
	tEnter := time.Now()
	w.mu.Lock()
	defer w.mu.Unlock()
	hdr := b.MsgBlock().Header
	sub := &vfSubmitted{header: hdr, tEnter: tEnter, hash: *b.Hash()}
	if txs := b.MsgBlock().Transactions; len(txs) > 0 && len(txs[0].TxOut) > 0 {
		sub.cbValue = txs[0].TxOut[len(txs[0].TxOut)-1].Value
	}
	var r *vfRoundRT
	for _, x := range w.rounds {
		if x.prev == hdr.Previous {
			r = x
		}
	}
	if r == nil {
		w.fail(vlib.Failf("block-for-unknown-template", "miner %d: ProcessBlock got a block whose parent %v belongs to no template handed out", w.mi, hdr.Previous))
		return false, errors.New("unknown parent")
	}
	if t, ok := w.accepted[hdr.Height]; ok {
		w.fail(vlib.Failf("height-mined-twice", "miner %d round %d: a block of height %d was submitted although this node's block of that height had been accepted at %s", w.mi, r.ri, hdr.Height, t.Format("15:04:05.000")))
	}
	for _, st := range w.stops {
		if tEnter.After(st[0]) && (st[1].IsZero() || tEnter.Before(st[1])) {
			w.fail(vlib.Failf("processblock-after-stop", "miner %d round %d: ProcessBlock entered at %s, after Stop() had returned at %s", w.mi, r.ri, tEnter.Format("15:04:05.000"), st[0].Format("15:04:05.000")))
		}
	}
	sub.result = r.spec.Result
	r.blocks = append(r.blocks, sub)
	switch r.spec.Result {
	case "orphan":
		return true, nil
	case "error":
		return false, errors.New("scripted rejection")
	}
	w.accepted[hdr.Height] = time.Now()
	return false, nil
}

// --- SyncManager

func (w *vfWorld) IsCaughtUp() bool { return true }
func (w *vfWorld) PeerCount() int   { return 3 }

// --- SpaceKeeper

type vfKeeper struct {
	spacekeeper.SpaceKeeper
	w *vfWorld
}

func (k *vfKeeper) Started() bool { return true }
func (k *vfKeeper) Start() error  { return nil }
func (k *vfKeeper) Stop() error   { return nil }
func (k *vfKeeper) Type() string  { return "scripted" }

func (k *vfKeeper) GetProofs(ctx context.Context, flags engine.WorkSpaceStateFlags, challenge pocutil.Hash, filter bool) ([]*engine.WorkSpaceProof, error) {
	w := k.w
	w.mu.Lock()
	defer w.mu.Unlock()
	r := w.cur
	if r == nil {
		return nil, errors.New("no round")
	}
	r.asked = true
	switch {
	case flags != engine.SFMining:
		r.badAsk = fmt.Sprintf("asked spaces with flags %v, want the mining ones", flags)
	case challenge != r.chal:
		r.badAsk = "asked for another challenge than the template's"
	case filter != r.filter:
		r.badAsk = fmt.Sprintf("plot filter %v at height %d", filter, r.spec.Height)
	}
	out := make([]*engine.WorkSpaceProof, len(r.offered))
	for i, p := range r.offered {
		cp := *p
		out[i] = &cp
	}
	return out, nil
}

func (k *vfKeeper) SignHash(sid string, hash [32]byte) (*pocec.Signature, error) {
	t := time.Now()
	w := k.w
	w.mu.Lock()
	if w.cur != nil {
		w.cur.signs = append(w.cur.signs, vfSign{sid, t})
	}
	w.mu.Unlock()
	for _, key := range w.fx.keys {
		if key.sid == sid {
			h := wire.HashH(hash[:])
			return key.priv.Sign(h[:])
		}
	}
	return nil, errors.New("unknown space")
}

// ---- judge ---------------------------------------------------------------------------------------------------

func (w *vfWorld) judgeBlock(r *vfRoundRT, b *vfSubmitted) *vlib.Failure {
	who := fmt.Sprintf("miner %d round %d (height %d, template time %d, %d offered, %d eligible)", r.mi, r.ri, r.spec.Height, r.t0.Unix(), len(r.offered), len(r.elig))
	h := b.header
	if h.Height != r.spec.Height || pocutil.Hash(h.Challenge) != r.chal {
		return vlib.Failf("block-header-differs-from-template", "%s: height %d challenge %v", who, h.Height, h.Challenge)
	}
	pub, ok1 := h.PubKey.(*pocec.PublicKey)
	proof, ok2 := h.Proof.(*poc.DefaultProof)
	if !ok1 || !ok2 || pub == nil || proof == nil {
		return vlib.Failf("block-without-proof", "%s: header carries pubkey %T proof %T", who, h.PubKey, h.Proof)
	}
	oi := -1
	for i, p := range r.offered {
		if p.Error == nil && string(p.PublicKey.SerializeCompressed()) == string(pub.SerializeCompressed()) && string(p.Proof.X) == string(proof.X) && string(p.Proof.XPrime) == string(proof.XPrime) && p.Proof.BL == proof.BL {
			oi = i
		}
	}
	if oi < 0 {
		return vlib.Failf("block-proof-not-offered", "%s: the block's proof/key pair was not among the proofs the spaces offered without error", who)
	}
	if err := poc.VerifyProof(proof, pocutil.PubKeyHash(pub), r.chal, r.filter); err != nil {
		return vlib.Failf("block-proof-does-not-verify", "%s: submitted proof of key #%d (%s): %v", who, r.offKey[oi], r.offKind[oi], err)
	}
	if r.unbound[r.offKey[oi]] {
		return vlib.Failf("block-proof-not-bound", "%s: submitted proof of key #%d which does not pass binding", who, r.offKey[oi])
	}
	k, onGrid := r.slotIndex(h.Timestamp)
	if !onGrid {
		return vlib.Failf("timestamp-off-slot-grid", "%s: block time %d is not template time + k*%ds", who, h.Timestamp.Unix(), pocSlot)
	}
	q := r.quality(oi, h.Timestamp)
	tgt := r.target(k)
	if q.Cmp(tgt) <= 0 {
		return vlib.Failf("quality-not-above-target", "%s: slot +%d: quality %v of the submitted proof does not exceed the target %v at the block's timestamp", who, k, q, tgt)
	}
	if h.Target == nil || h.Target.Cmp(tgt) != 0 {
		return vlib.Failf("header-target-wrong", "%s: slot +%d: header target %v, target function gives %v", who, k, h.Target, tgt)
	}
	if bi, bq := r.bestAt(k); bi >= 0 && bq.Cmp(q) > 0 {
		return vlib.Failf("better-proof-ignored", "%s: slot +%d: submitted key #%d with quality %v, but eligible key #%d has quality %v", who, k, r.offKey[oi], q, r.offKey[bi], bq)
	}
	if fe := r.firstEligible(k - 1); fe >= 0 {
		_, bq := r.bestAt(fe)
		return vlib.Failf("earlier-eligible-slot-skipped", "%s: block at slot +%d, but at slot +%d the best quality %v already exceeded the target %v", who, k, fe, bq, r.target(fe))
	}
	if ok, err := h.VerifySig(); err != nil || !ok {
		return vlib.Failf("signature-invalid", "%s: header signature does not verify under the block's key #%d (%v)", who, r.offKey[oi], err)
	}
	if b.cbValue != int64(1000+r.offKey[oi]) {
		return vlib.Failf("coinbase-of-other-key", "%s: coinbase pays %d, the winning key #%d has %d", who, b.cbValue, r.offKey[oi], 1000+r.offKey[oi])
	}
	if !b.tEnter.After(h.Timestamp) {
		return vlib.Failf("submitted-before-timestamp", "%s: ProcessBlock entered at %s, block time %s", who, b.tEnter.Format("15:04:05.000"), h.Timestamp.Format("15:04:05.000"))
	}
	for _, s := range r.signs {
		if vfSlot(h.Timestamp) > vfSlot(s.t)+vfAllowAhead {
			return vlib.Failf("beyond-look-ahead", "%s: header of slot %d was being signed at %s (slot %d), more than %d slot ahead", who, vfSlot(h.Timestamp), s.t.Format("15:04:05.000"), vfSlot(s.t), vfAllowAhead)
		}
	}
	// abandonment
	tsStar := r.t0.Add(time.Duration(k) * pocSlot * time.Second)
	switch r.spec.Event {
	case "switched":
		return vlib.Failf("mined-on-switched-chain", "%s: the best block was no longer the template's parent when the round began, yet a block was submitted", who)
	case "tip-better":
		if r.tipSent.Unix() > 1 && vfSlot(tsStar) > vfSlot(r.tipSent)+vfAllowAhead+1 {
			return vlib.Failf("not-abandoned-after-better-tip", "%s: a better tip was delivered at %s (slot %d); the submitted block's slot %d could not be tried before slot %d", who, r.tipSent.Format("15:04:05.000"), vfSlot(r.tipSent), vfSlot(tsStar), vfSlot(tsStar)-vfAllowAhead)
		}
	case "tip-moved":
		if !r.tipMoved.IsZero() && vfSlot(tsStar) > vfSlot(r.tipMoved)+vfAllowAhead+1 {
			return vlib.Failf("not-abandoned-after-chain-moved-on", "%s: after a not-better notification the waiter could not be re-armed at %s (slot %d) because the chain had moved past the parent; the submitted block's slot %d could not be tried before slot %d", who, r.tipMoved.Format("15:04:05.000"), vfSlot(r.tipMoved), vfSlot(tsStar), vfSlot(tsStar)-vfAllowAhead)
		}
	case "stop":
		if !r.stopCall.IsZero() && vfSlot(tsStar) > vfSlot(r.stopCall)+vfAllowAhead+1 {
			return vlib.Failf("not-abandoned-after-stop", "%s: Stop() was called at %s (slot %d); the submitted block's slot %d could not be tried before slot %d", who, r.stopCall.Format("15:04:05.000"), vfSlot(r.stopCall), vfSlot(tsStar), vfSlot(tsStar)-vfAllowAhead)
		}
	}
	return nil
}

// ---- one miner ---------------------------------------------------------------------------------------------------

type vfMinerOutcome struct {
	fail     *vlib.Failure
	rounds   int
	blocks   int
	labels   map[string]int
	nt       bool
	timedOut bool
}

func vfStacks(sub string) string {
	buf := make([]byte, 1<<18)
	buf = buf[:runtime.Stack(buf, true)]
	var keep []string
	for _, g := range strings.Split(string(buf), "\n\n") {
		if strings.Contains(g, sub) {
			keep = append(keep, g)
		}
	}
	return strings.Join(keep, "\n\n")
}

func vfRunMiner(fx *vfFix, mi int, script vfMinerScript) vfMinerOutcome {
	out := vfMinerOutcome{labels: map[string]int{}}
	w := &vfWorld{fx: fx, mi: mi, script: script.Rounds, roundStart: make(chan *vfRoundRT, 8), done: make(chan struct{}), closing: make(chan struct{}), accepted: map[uint64]time.Time{}}
	defer close(w.closing)
	newBlockCh := make(chan *wire.Hash, 64)
	addr, err := massutil.NewAddressWitnessScriptHash(make([]byte, 32), &config.ChainParams)
	if err != nil {
		out.fail = vlib.Failf("harness:address", "%v", err)
		return out
	}
	mI, err := NewSyncMiner(false, Chain(w), SyncManager(w), spacekeeper.SpaceKeeper(&vfKeeper{w: w}), newBlockCh, []massutil.Address{addr})
	if err != nil {
		out.fail = vlib.Failf("harness:new-miner", "%v", err)
		return out
	}
	m := mI.(*PoCMiner)
	stop := func(r *vfRoundRT) *vlib.Failure {
		res := make(chan error, 1)
		tCall := time.Now()
		if r != nil {
			w.mu.Lock()
			r.stopCall = tCall
			w.mu.Unlock()
		}
		w.mu.Lock()
		if w.cur != nil {
			w.cur.disturbed = true
		}
		w.mu.Unlock()
		go func() { res <- m.Stop() }()
		select {
		case <-res:
		case <-time.After(90 * time.Second):
			return vlib.Failf("miner-stop-did-not-return", "miner %d: Stop() has not returned after 90 s:\n%s", mi, vfStacks("pocminer/miner.(*PoCMiner)"))
		}
		w.mu.Lock()
		if w.cur != nil {
			w.cur.disturbed = true
		}
		w.stops = append(w.stops, [2]time.Time{time.Now(), {}})
		if r != nil {
			r.stopRet = time.Now()
			r.ended = true
		}
		w.mu.Unlock()
		return nil
	}
	if err := m.Start(); err != nil {
		out.fail = vlib.Failf("harness:start", "%v", err)
		return out
	}
	deadline := time.After(150 * time.Second)
loop:
	for {
		select {
		case r := <-w.roundStart:
			if r.spec.Event == "stop" || r.spec.Event == "restart" || r.spec.Event == "stop-holding" {
				time.Sleep(time.Duration(r.spec.DelayMs) * time.Millisecond)
				if f := stop(r); f != nil {
					out.fail = f
					return out
				}
				time.Sleep(300 * time.Millisecond)
				w.mu.Lock()
				w.stops[len(w.stops)-1][1] = time.Now()
				w.mu.Unlock()
				if err := m.Start(); err != nil {
					out.fail = vlib.Failf("restart-failed", "miner %d: Start() after Stop(): %v", mi, err)
					return out
				}
			}
		case <-w.done:
			break loop
		case <-deadline:
			out.timedOut = true
			break loop
		}
	}
	if f := stop(nil); f != nil {
		out.fail = f
		return out
	}
	// announced hashes
	announced := map[wire.Hash]int{}
	for {
		select {
		case h := <-newBlockCh:
			announced[*h]++
			continue
		default:
		}
		break
	}
	w.mu.Lock()
	defer w.mu.Unlock()
	if len(w.violations) > 0 {
		out.fail = w.violations[0]
		return out
	}
	for _, r := range w.rounds {
		out.rounds++
		who := fmt.Sprintf("miner %d round %d (height %d)", r.mi, r.ri, r.spec.Height)
		if r.badAsk != "" {
			out.fail = vlib.Failf("proofs-requested-wrongly", "%s: %s", who, r.badAsk)
			return out
		}
		if len(r.blocks) > 1 {
			out.fail = vlib.Failf("round-submitted-twice", "%s: %d blocks for one template", who, len(r.blocks))
			return out
		}
		for _, b := range r.blocks {
			out.blocks++
			if f := w.judgeBlock(r, b); f != nil {
				out.fail = f
				return out
			}
			n := announced[b.hash]
			if b.result == "accept" && n != 1 {
				out.fail = vlib.Failf("accepted-block-not-announced", "%s: accepted block announced %d times on newBlockCh", who, n)
				return out
			}
			if b.result != "accept" && n != 0 {
				out.fail = vlib.Failf("announced-unaccepted-block", "%s: block answered with %q was announced on newBlockCh", who, b.result)
				return out
			}
		}
		// completeness, decided by the miner's own move to the next template (no clock): a round without events,
		// without an unverifiable entry, with something eligible, at a height this node has not been accepted for,
		// must have produced its block before the miner asked for another template
		heightDone := false
		for _, o := range w.rounds[:r.ri] {
			if o.spec.Height == r.spec.Height && len(o.blocks) > 0 {
				heightDone = true
			}
		}
		plain := (r.spec.Event == "" || r.spec.Event == "tip-notbetter") && !r.poisoned && len(r.elig) > 0 && !heightDone && !r.disturbed
		if plain && r.ended && !out.timedOut && len(r.blocks) == 0 && r.asked {
			out.fail = vlib.Failf("eligible-block-not-submitted", "%s: %d eligible proofs, first eligible slot +%d, the miner moved on to another template without submitting a block", who, len(r.elig), r.firstEligible(64))
			return out
		}
		switch {
		case r.spec.Event != "":
			out.labels["event:"+r.spec.Event]++
			out.nt = true
		case r.poisoned:
			out.labels["round-with-unverifiable-entry"]++
		case len(r.elig) == 0:
			out.labels["nothing-eligible"]++
		}
		if len(r.blocks) == 1 {
			k, _ := r.slotIndex(r.blocks[0].header.Timestamp)
			if len(r.elig) >= 2 && k > 0 {
				out.labels["block:>=2-eligible-and-later-slot"]++
				out.nt = true
			}
			if r.filter {
				out.labels["block:plot-filter-height"]++
			}
			if len(r.unbound) > 0 {
				out.labels["block:with-unbound-competitor"]++
			}
			out.labels["block:"+r.blocks[0].result]++
		}
		if heightDone {
			out.labels["repeated-height"]++
		}
	}
	if out.timedOut {
		out.labels["script-not-finished-in-150s"]++
	}
	return out
}

func vfC08Run(c vfC08Case, ctx *vlib.Ctx) *vlib.Failure {
	fx, err := vfLoadFix()
	if err != nil {
		return vlib.Failf("harness:fixture", "%v", err)
	}
	outs := make([]vfMinerOutcome, len(c.Miners))
	var wg sync.WaitGroup
	for i := range c.Miners {
		wg.Add(1)
		go func(i int) {
			defer wg.Done()
			outs[i] = vfRunMiner(fx, i, c.Miners[i])
		}(i)
	}
	wg.Wait()
	var first *vlib.Failure
	timeouts := 0
	for _, o := range outs {
		if o.fail != nil && first == nil {
			first = o.fail
		}
		ctx.LabelN("rounds", o.rounds)
		ctx.LabelN("blocks", o.blocks)
		for k, v := range o.labels {
			ctx.LabelN(k, v)
		}
		if o.nt {
			ctx.NonTrivial()
		}
		if o.timedOut {
			timeouts++
		}
	}
	if first != nil {
		return first
	}
	if timeouts == len(outs) {
		return vlib.Failf("harness:no-script-finished", "none of the %d miner scripts finished within 150 s", len(outs))
	}
	return nil
}

var vfC08Spec = vlib.Spec[vfC08Case]{
	Prop: "C08", Name: "miner-rounds", NoShrink: true, Min: 1,
	Rule: "8-12 started miners per case, each with 1-4 scripted templates: height (plot filter on/off, heights of earlier rounds again), template time -15..+4 s from now, per fixture key a real BL=24 proof offered as ok / unbound / lookup error / altered x / other key's proof / absent, target function per slot from {unbeatable, zero, quality of the best or second-best eligible proof -1/0/+1}, ProcessBlock answer accept/orphan/error, events {better tip, not-better tip, not-better tip after which the waiter cannot be re-armed, Stop()+Start() with the eligible slot far ahead, Stop()+Start() right after the template, Stop() while a block found one slot ahead is held back until its timestamp, best block switched before the round}; oracle on every block handed to ProcessBlock: offered without error, verifies for the template challenge (with the height's plot filter), bound, timestamp = template time + k*3 s, quality > target(ts), header target = target(ts), no eligible proof better at that slot, no earlier slot eligible, signature verifies under the block's key, coinbase of that key, entered after its timestamp, at most one slot ahead when signed, height never accepted before, not after Stop() returned, none for rounds whose first eligible slot was out of reach when a better tip/Stop arrived or whose chain had switched; a plain round the miner left for another template without a block is a violation; non-trivial = a block with >=2 eligible proofs at a later slot than the template's, or a round with an event; distinct = distinct case JSON",
	Gen:  vfGenC08, Run: vfC08Run,
}

func TestVerif_C08(t *testing.T) { vlib.Both(t, vfC08Spec) }
