package protocol

// C16 — the cluster wire codec is total and lossless (DESIGN.md §4 C16).
// (a) generated messages of all six types round-trip; (b) arbitrary bytes and (c) structure-aware mutations of
// valid encodings either decode to a well-formed message or return an error — a panic is caught inside the
// property and is the violation; accepted inputs re-encode to a fixed point; (d) inputs up to the 2 MiB receive
// limit are decoded with allocation proportional to their size.

import (
	"bytes"
	"encoding/hex"
	"encoding/json"
	"fmt"
	"math/big"
	"os"
	"runtime"
	"strings"
	"sync"
	"testing"
	"time"

	"github.com/google/uuid"
	"github.com/massnetorg/mass-core/poc/chiapos"
	engine_v2 "massnet.org/mass/poc/engine.v2"

	"pgregory.net/rapid"
	"verif/vlib"
)

type vfQ struct {
	SpaceID string `json:"space_id"`
	Pk      int    `json:"pk"`
	Pool    int    `json:"pool"`
	Index   uint32 `json:"index"`
	KSize   uint8  `json:"k"`
	Quality []byte `json:"quality"`
	PlotID  []byte `json:"plot_id"`
	Slot    uint64 `json:"slot"`
}

type vfMsgCase struct {
	Type    int    `json:"type"`
	TaskID  []byte `json:"task_id"`
	Hash    []byte `json:"hash"`
	Target  []byte `json:"target"`
	Slot    uint64 `json:"slot"`
	Height  uint64 `json:"height"`
	SpaceID string `json:"space_id"`
	Index   uint32 `json:"index"`
	KSize   uint8  `json:"k"`
	Pk      int    `json:"pk"`
	Pool    int    `json:"pool"`
	Proof   []byte `json:"proof"`
	Quals   []vfQ  `json:"quals"`
	// mutation of the encoding (check b/c); nil = plain round trip
	Mut *vfMut `json:"mut,omitempty"`
	Raw []byte `json:"raw,omitempty"` // arbitrary bytes instead of an encoding
}

type vfMut struct {
	Kind  string `json:"kind"`
	Field int    `json:"field"`
	Arg   int    `json:"arg"`
}

var (
	vfKeyMu   sync.Mutex
	vfKeys    = map[int]*chiapos.PrivateKey{}
	vfG1s     = map[int]*chiapos.G1Element{}
	vfSigOnce = map[string]*chiapos.G2Element{}
)

func vfKey(i int) (*chiapos.PrivateKey, *chiapos.G1Element) {
	vfKeyMu.Lock()
	defer vfKeyMu.Unlock()
	i = ((i % 12) + 12) % 12
	if k, ok := vfKeys[i]; ok {
		return k, vfG1s[i]
	}
	seed := bytes.Repeat([]byte{byte(i + 1)}, 32)
	sk, err := chiapos.NewAugSchemeMPL().KeyGen(seed)
	if err != nil {
		panic(err)
	}
	g1, err := sk.GetG1()
	if err != nil {
		panic(err)
	}
	vfKeys[i], vfG1s[i] = sk, g1
	return sk, g1
}

func vfSig(i int, msg []byte) *chiapos.G2Element {
	sk, _ := vfKey(i)
	vfKeyMu.Lock()
	defer vfKeyMu.Unlock()
	key := fmt.Sprintf("%d/%x", i%12, msg)
	if s, ok := vfSigOnce[key]; ok {
		return s
	}
	s, err := chiapos.NewAugSchemeMPL().Sign(sk, msg)
	if err != nil {
		panic(err)
	}
	if len(vfSigOnce) < 4096 {
		vfSigOnce[key] = s
	}
	return s
}

func vfH32(b []byte) (h [32]byte) { copy(h[:], b); return }

func (c *vfMsgCase) build() Message {
	var tid uuid.UUID
	copy(tid[:], c.TaskID)
	switch c.Type % 6 {
	case 0:
		return &RequestQualities{TaskID: tid, Challenge: vfH32(c.Hash), ParentTarget: new(big.Int).SetBytes(c.Target), ParentSlot: c.Slot, Height: c.Height}
	case 1:
		m := &ReportQualities{TaskID: tid}
		for _, q := range c.Quals {
			_, pk := vfKey(q.Pk)
			_, pool := vfKey(q.Pool)
			m.Qualities = append(m.Qualities, &Quality{WorkSpaceQuality: &engine_v2.WorkSpaceQuality{SpaceID: q.SpaceID, PublicKey: pk, PoolPublicKey: pool,
				Index: q.Index, KSize: q.KSize, Quality: q.Quality, PlotID: vfH32(q.PlotID)}, Slot: q.Slot})
		}
		return m
	case 2:
		return &RequestProof{TaskID: tid, Height: c.Height, SpaceID: c.SpaceID, Challenge: vfH32(c.Hash), Index: c.Index}
	case 3:
		_, pk := vfKey(c.Pk)
		_, pool := vfKey(c.Pool)
		return &ReportProof{TaskID: tid, Proof: &Proof{SpaceID: c.SpaceID, PublicKey: pk, Ordinal: engine_v2.UnknownOrdinal,
			Proof: &chiapos.ProofOfSpace{Challenge: vfH32(c.Hash), PoolPublicKey: pool, PlotPublicKey: pk, KSize: c.KSize, Proof: c.Proof}}}
	case 4:
		return &RequestSignature{TaskID: tid, Height: c.Height, SpaceID: c.SpaceID, Hash: vfH32(c.Hash)}
	default:
		return &ReportSignature{TaskID: tid, SpaceID: c.SpaceID, Hash: vfH32(c.Hash), Signature: vfSig(c.Pk, c.Hash)}
	}
}

// vfSame compares two messages on every field that travels on the wire.
func vfSame(a, b Message) string {
	if a.MsgType() != b.MsgType() || a.ID() != b.ID() {
		return fmt.Sprintf("type/id %v/%v vs %v/%v", a.MsgType(), a.ID(), b.MsgType(), b.ID())
	}
	g1 := func(x, y *chiapos.G1Element) bool { return bytes.Equal(x.Bytes(), y.Bytes()) }
	switch x := a.(type) {
	case *RequestQualities:
		y := b.(*RequestQualities)
		if x.Challenge != y.Challenge || x.ParentTarget.Cmp(y.ParentTarget) != 0 || x.ParentSlot != y.ParentSlot || x.Height != y.Height {
			return fmt.Sprintf("%+v vs %+v", x, y)
		}
	case *ReportQualities:
		y := b.(*ReportQualities)
		if len(x.Qualities) != len(y.Qualities) {
			return fmt.Sprintf("%d vs %d qualities", len(x.Qualities), len(y.Qualities))
		}
		for i := range x.Qualities {
			p, q := x.Qualities[i], y.Qualities[i]
			if p.SpaceID != q.SpaceID || !g1(p.PublicKey, q.PublicKey) || !g1(p.PoolPublicKey, q.PoolPublicKey) || p.Index != q.Index || p.KSize != q.KSize ||
				!bytes.Equal(p.Quality, q.Quality) || p.PlotID != q.PlotID || p.Slot != q.Slot {
				return fmt.Sprintf("quality %d: %+v vs %+v", i, p.Msg(), q.Msg())
			}
		}
	case *RequestProof:
		y := b.(*RequestProof)
		if *x != *y {
			return fmt.Sprintf("%+v vs %+v", x, y)
		}
	case *ReportProof:
		y := b.(*ReportProof)
		p, q := x.Proof, y.Proof
		if p.SpaceID != q.SpaceID || p.Proof.Challenge != q.Proof.Challenge || !g1(p.Proof.PoolPublicKey, q.Proof.PoolPublicKey) || !g1(p.Proof.PlotPublicKey, q.Proof.PlotPublicKey) ||
			p.Proof.KSize != q.Proof.KSize || !bytes.Equal(p.Proof.Proof, q.Proof.Proof) || !g1(p.PublicKey, q.PublicKey) {
			return fmt.Sprintf("%+v vs %+v", p.Msg(), q.Msg())
		}
	case *RequestSignature:
		y := b.(*RequestSignature)
		if *x != *y {
			return fmt.Sprintf("%+v vs %+v", x, y)
		}
	case *ReportSignature:
		y := b.(*ReportSignature)
		if x.SpaceID != y.SpaceID || x.Hash != y.Hash || !bytes.Equal(x.Signature.Bytes(), y.Signature.Bytes()) {
			return fmt.Sprintf("%+v vs %+v", x.Msg(), y.Msg())
		}
	}
	return ""
}

// vfDecodeGuard decodes and turns a panic into a verdict.
func vfDecodeGuard(data []byte) (m Message, err error, pan interface{}, stack string) {
	defer func() {
		if r := recover(); r != nil {
			pan = r
			buf := make([]byte, 8192)
			stack = string(buf[:runtime.Stack(buf, false)])
		}
	}()
	m, err = DecodeMessage(data)
	return
}

func vfMutate(enc []byte, mu *vfMut) []byte {
	if len(enc) < 2 {
		return enc
	}
	var doc map[string]interface{}
	if json.Unmarshal(enc[2:], &doc) != nil {
		return enc
	}
	keys := make([]string, 0, len(doc))
	for k := range doc {
		keys = append(keys, k)
	}
	// deterministic order
	for i := 0; i < len(keys); i++ {
		for j := i + 1; j < len(keys); j++ {
			if keys[j] < keys[i] {
				keys[i], keys[j] = keys[j], keys[i]
			}
		}
	}
	f := ((mu.Field % len(keys)) + len(keys)) % len(keys)
	key := keys[f]
	target := doc
	// descend into nested object / array element sometimes
	if sub, ok := doc[key].(map[string]interface{}); ok && mu.Arg%2 == 0 && len(sub) > 0 {
		sk := make([]string, 0)
		for k := range sub {
			sk = append(sk, k)
		}
		for i := 0; i < len(sk); i++ {
			for j := i + 1; j < len(sk); j++ {
				if sk[j] < sk[i] {
					sk[i], sk[j] = sk[j], sk[i]
				}
			}
		}
		target, key = sub, sk[(mu.Arg/2)%len(sk)]
	} else if arr, ok := doc[key].([]interface{}); ok && len(arr) > 0 && mu.Kind != "remove" && mu.Kind != "null" {
		if el, ok := arr[mu.Arg%len(arr)].(map[string]interface{}); ok && len(el) > 0 {
			sk := make([]string, 0)
			for k := range el {
				sk = append(sk, k)
			}
			for i := 0; i < len(sk); i++ {
				for j := i + 1; j < len(sk); j++ {
					if sk[j] < sk[i] {
						sk[i], sk[j] = sk[j], sk[i]
					}
				}
			}
			target, key = el, sk[(mu.Arg/3)%len(sk)]
		}
	}
	switch mu.Kind {
	case "remove":
		delete(target, key)
	case "null":
		target[key] = nil
	case "elemnull":
		if arr, ok := doc[keys[f]].([]interface{}); ok && len(arr) > 0 {
			arr[mu.Arg%len(arr)] = nil
		} else {
			doc[keys[f]] = []interface{}{nil}
		}
	case "type":
		switch target[key].(type) {
		case string:
			target[key] = 12345.5
		case float64:
			target[key] = "nan"
		default:
			target[key] = "x"
		}
	case "huge":
		target[key] = strings.Repeat("ab", 1+(mu.Arg%8)*20000)
	case "badhex":
		if s, ok := target[key].(string); ok && len(s) > 0 {
			b := []byte(s)
			b[mu.Arg%len(b)] = 'g'
			target[key] = string(b)
		} else {
			target[key] = "zz"
		}
	case "oddhex":
		if s, ok := target[key].(string); ok {
			target[key] = s + "a"
		}
	case "short":
		if s, ok := target[key].(string); ok && len(s) > 2 {
			target[key] = s[:len(s)-2]
		}
	case "badpoint":
		if s, ok := target[key].(string); ok && len(s) >= 96 {
			raw, _ := hex.DecodeString(s)
			if len(raw) > 0 {
				raw[mu.Arg%len(raw)] ^= byte(1 + mu.Arg%255)
				target[key] = hex.EncodeToString(raw)
			}
		} else {
			target[key] = strings.Repeat("ff", 48)
		}
	case "negative":
		target[key] = -1
	case "bignum":
		target[key] = 1e30
	case "array":
		target[key] = []interface{}{target[key]}
	}
	out, err := json.Marshal(doc)
	if err != nil {
		return enc
	}
	return append(append([]byte{}, enc[:2]...), out...)
}

func vfC16Run(c vfMsgCase, ctx *vlib.Ctx) *vlib.Failure {
	var data []byte
	var orig Message
	if c.Raw != nil {
		data = c.Raw
	} else {
		orig = c.build()
		enc, err := EncodeMessage(orig)
		if err != nil {
			return vlib.Failf("encode-failed", "type %d: %v", c.Type%6, err)
		}
		data = enc
		if c.Mut != nil {
			data = vfMutate(enc, c.Mut)
		}
	}
	m, err, pan, stack := vfDecodeGuard(data)
	if pan != nil {
		f := vlib.RepoPanicSig(pan, []byte(stack))
		f.Sig = "decode-" + f.Sig
		f.Msg = fmt.Sprintf("DecodeMessage panicked on %d bytes (%.300q): %v\n%s", len(data), data, pan, stack)
		return f
	}
	if c.Raw == nil && c.Mut == nil {
		if err != nil {
			return vlib.Failf("roundtrip-rejected", "type %d: own encoding rejected: %v (%.300q)", c.Type%6, err, data)
		}
		if d := vfSame(orig, m); d != "" {
			return vlib.Failf("roundtrip-differs", "type %d: decoded message differs: %s", c.Type%6, d)
		}
		ctx.Label(fmt.Sprintf("roundtrip-type-%d", c.Type%6+1))
		ctx.NonTrivial()
		return nil
	}
	if err != nil {
		ctx.Label("rejected")
		if c.Mut != nil {
			ctx.Label("mut-rejected:" + c.Mut.Kind)
		}
		return nil
	}
	if m == nil {
		return vlib.Failf("nil-message-without-error", "%.200q", data)
	}
	// accepted: must be a well-formed message: re-encodes, and the re-encoding is a fixed point
	var enc2 []byte
	var encErr error
	func() {
		defer func() {
			if r := recover(); r != nil {
				encErr = fmt.Errorf("panic: %v", r)
			}
		}()
		enc2, encErr = EncodeMessage(m)
	}()
	if encErr != nil {
		return vlib.Failf("accepted-message-not-wellformed", "input %.300q decoded without error but cannot be re-encoded: %v", data, encErr)
	}
	m2, err2, pan2, _ := vfDecodeGuard(enc2)
	if err2 != nil || pan2 != nil {
		return vlib.Failf("accepted-message-not-wellformed", "re-encoding of an accepted message is rejected: %v %v", err2, pan2)
	}
	if d := vfSame(m, m2); d != "" {
		return vlib.Failf("reencode-not-fixed-point", "%s", d)
	}
	ctx.Label("accepted")
	if c.Mut != nil {
		ctx.Label("mut-accepted:" + c.Mut.Kind)
	}
	ctx.NonTrivial() // reached SetMsg of its type successfully
	return nil
}

var vfMutKinds = []string{"remove", "null", "elemnull", "type", "huge", "badhex", "oddhex", "short", "badpoint", "negative", "bignum", "array"}

func vfGenMsg(t *rapid.T) vfMsgCase {
	c := vfMsgCase{Type: rapid.IntRange(0, 5).Draw(t, "type"),
		TaskID: rapid.SliceOfN(rapid.Byte(), 16, 16).Draw(t, "task"), Hash: rapid.SliceOfN(rapid.Byte(), 32, 32).Draw(t, "hash"),
		Slot: rapid.Uint64().Draw(t, "slot"), Height: rapid.Uint64().Draw(t, "height"),
		SpaceID: rapid.OneOf(rapid.StringN(0, 40, -1), rapid.SampledFrom([]string{"", "space", "\x00", "\"}", "日本"})).Draw(t, "space"),
		Index:   rapid.Uint32().Draw(t, "index"), KSize: rapid.Uint8().Draw(t, "k"), Pk: rapid.IntRange(0, 11).Draw(t, "pk"), Pool: rapid.IntRange(0, 11).Draw(t, "pool")}
	switch rapid.IntRange(0, 4).Draw(t, "targetKind") {
	case 0:
		c.Target = nil
	case 1:
		c.Target = bytes.Repeat([]byte{0xff}, 32)
	case 2:
		c.Target = append([]byte{1}, make([]byte, 32)...) // 2^256
	default:
		c.Target = rapid.SliceOfN(rapid.Byte(), 0, 33).Draw(t, "target")
	}
	c.Proof = rapid.SliceOfN(rapid.Byte(), 0, 300).Draw(t, "proof")
	nq := rapid.SampledFrom([]int{0, 1, 1, 2, 3, 8, 64}).Draw(t, "nq")
	if c.Type%6 == 1 {
		for i := 0; i < nq; i++ {
			c.Quals = append(c.Quals, vfQ{SpaceID: rapid.StringN(0, 20, -1).Draw(t, "qspace"), Pk: rapid.IntRange(0, 11).Draw(t, "qpk"), Pool: rapid.IntRange(0, 11).Draw(t, "qpool"),
				Index: rapid.Uint32().Draw(t, "qindex"), KSize: rapid.Uint8().Draw(t, "qk"), Quality: rapid.SliceOfN(rapid.Byte(), 0, 40).Draw(t, "quality"),
				PlotID: rapid.SliceOfN(rapid.Byte(), 32, 32).Draw(t, "plotid"), Slot: rapid.Uint64().Draw(t, "qslot")})
		}
	}
	return c
}

var vfC16RoundTrip = vlib.Spec[vfMsgCase]{
	Prop: "C16", Name: "roundtrip",
	Rule: "values of all six message types (uuids, 32-byte hashes, targets 0..2^256, extreme slots/heights/indices, arbitrary UTF-8 space ids, 0-64 qualities with valid BLS G1 elements derived from generated secret keys, proofs, G2 signatures); oracle: Decode(Encode(m)) equals m on every wire field; every case is non-trivial (reaches SetMsg); distinct = distinct case JSON",
	Gen:  vfGenMsg, Run: vfC16Run,
}

var vfC16Hostile = vlib.Spec[vfMsgCase]{
	Prop: "C16", Name: "hostile-bytes",
	Rule: "(b) arbitrary byte strings with a valid or invalid type prefix and (c) valid encodings with one structural JSON mutation (field removed, null, array element null, wrong type, huge string, bad/odd hex, truncated value, corrupted group element, negative/huge number, wrapped in array), also inside nested proof / quality objects; oracle: (message,nil) or (.,error); a panic is caught by recover inside the property and is the violation; accepted inputs must re-encode and decode to the same value; non-trivial = the input was accepted (reached SetMsg of its type); distinct = distinct case JSON",
	Gen: func(t *rapid.T) vfMsgCase {
		c := vfGenMsg(t)
		if rapid.IntRange(0, 3).Draw(t, "raw") == 0 {
			pre := []byte{0, byte(rapid.IntRange(0, 8).Draw(t, "rawType"))}
			body := rapid.OneOf(rapid.SliceOfN(rapid.Byte(), 0, 64),
				rapid.Map(rapid.SampledFrom([]string{"", "{}", "null", "[]", "{\"task_id\":null}", "{\"qualities\":[null]}", "{\"proof\":null}", "{\"proof\":{}}", "\"x\"", "{\"task_id\":\"00000000-0000-0000-0000-000000000000\"}",
					"{\"task_id\":\"00000000-0000-0000-0000-000000000000\",\"qualities\":[null,null]}", "{\"task_id\":\"00000000-0000-0000-0000-000000000000\",\"proof\":null}", "[[[[[[[[", "{\"a\":"}), func(s string) []byte { return []byte(s) })).Draw(t, "rawBody")
			c.Raw = append(pre, body...)
			if rapid.IntRange(0, 9).Draw(t, "rawShort") == 0 {
				c.Raw = c.Raw[:rapid.IntRange(0, 2).Draw(t, "rawLen")]
			}
			return c
		}
		c.Mut = &vfMut{Kind: rapid.SampledFrom(vfMutKinds).Draw(t, "mutKind"), Field: rapid.IntRange(0, 7).Draw(t, "mutField"), Arg: rapid.IntRange(0, 1000).Draw(t, "mutArg")}
		return c
	},
	Run: vfC16Run,
}

type vfMultiCase struct {
	Msgs []vfMsgCase `json:"msgs"`
}

// several encoded frames outstanding at once (queued frames of a sender): every frame must still decode to its
// own message after the others have been encoded
func vfC16MultiRun(c vfMultiCase, ctx *vlib.Ctx) *vlib.Failure {
	var origs []Message
	var encs [][]byte
	for i := range c.Msgs {
		m := c.Msgs[i].build()
		enc, err := EncodeMessage(m)
		if err != nil {
			return vlib.Failf("encode-failed", "message %d: %v", i, err)
		}
		origs = append(origs, m)
		encs = append(encs, enc)
	}
	for i, enc := range encs {
		m, err, pan, _ := vfDecodeGuard(enc)
		if pan != nil || err != nil {
			return vlib.Failf("outstanding-frame-corrupted", "frame %d of %d no longer decodes after later messages were encoded: %v %v", i, len(encs), err, pan)
		}
		if d := vfSame(origs[i], m); d != "" {
			return vlib.Failf("outstanding-frame-corrupted", "frame %d of %d decodes to a different message after later messages were encoded: %s", i, len(encs), d)
		}
	}
	if len(encs) >= 2 {
		ctx.NonTrivial()
	}
	return nil
}

var vfC16Multi = vlib.Spec[vfMultiCase]{
	Prop: "C16", Name: "outstanding-frames", Scale: 0.3,
	Rule: "2-4 generated messages are encoded first and decoded afterwards (queued frames): each frame must decode to its own message; non-trivial = >=2 frames; distinct = distinct case JSON",
	Gen: func(t *rapid.T) vfMultiCase {
		var c vfMultiCase
		n := rapid.IntRange(2, 4).Draw(t, "n")
		for i := 0; i < n; i++ {
			c.Msgs = append(c.Msgs, vfGenMsg(t))
		}
		return c
	},
	Run: vfC16MultiRun,
}

func TestVerif_C16(t *testing.T) {
	t.Run("roundtrip", func(t *testing.T) { vlib.Both(t, vfC16RoundTrip) })
	t.Run("multi", func(t *testing.T) { vlib.Both(t, vfC16Multi) })
	t.Run("hostile", func(t *testing.T) { vlib.Both(t, vfC16Hostile) })
	t.Run("resources", vfC16Resources)
}

// (d) allocation proportional to input size up to the receive limit
func vfC16Resources(t *testing.T) {
	if testing.Short() {
		t.Skip()
	}
	if vlibReplay() || os.Getenv("VERIF_SHARD") != "0" {
		t.Skip("replay mode / not the first shard")
	}
	type big struct {
		name string
		data []byte
	}
	mk := func(n int) []big {
		var out []big
		out = append(out, big{"nested-arrays", append([]byte{0, 2}, bytes.Repeat([]byte("["), n)...)})
		out = append(out, big{"long-string", append(append([]byte{0, 1}, []byte("{\"task_id\":\"")...), append(bytes.Repeat([]byte("a"), n), []byte("\"}")...)...)})
		out = append(out, big{"many-null-qualities", append(append([]byte{0, 2}, []byte("{\"task_id\":\"00000000-0000-0000-0000-000000000000\",\"qualities\":[")...), append(bytes.Repeat([]byte("{},"), n/3), []byte("{}]}")...)...)})
		out = append(out, big{"long-hex-target", append(append([]byte{0, 1}, []byte("{\"task_id\":\"00000000-0000-0000-0000-000000000000\",\"challenge\":\""+strings.Repeat("00", 32)+"\",\"parent_target\":\"")...), append(bytes.Repeat([]byte("f"), n&^1), []byte("\"}")...)...)})
		out = append(out, big{"zeros", append([]byte{0, 4}, make([]byte, n)...)})
		return out
	}
	var samples []interface{}
	evals, nt := 0, []string{}
	for _, n := range []int{1 << 16, 1 << 19, 2 << 20} {
		for _, b := range mk(n) {
			var ms0, ms1 runtime.MemStats
			runtime.GC()
			runtime.ReadMemStats(&ms0)
			t0 := time.Now()
			_, err, pan, stack := vfDecodeGuard(b.data)
			el := time.Since(t0)
			runtime.ReadMemStats(&ms1)
			alloc := ms1.TotalAlloc - ms0.TotalAlloc
			evals++
			nt = append(nt, fmt.Sprintf("%s/%d", b.name, n))
			samples = append(samples, map[string]interface{}{"input": b.name, "bytes": len(b.data), "alloc_bytes": alloc, "seconds": el.Seconds(), "rejected": err != nil})
			if pan != nil {
				vlib.ReportFailure(t, "C16", "resource-bound", vlib.Failf("decode-panic:"+b.name, "%v\n%s", pan, stack), map[string]interface{}{"input": b.name, "n": n})
				return
			}
			if alloc > uint64(len(b.data))*600+(16<<20) {
				vlib.ReportFailure(t, "C16", "resource-bound", vlib.Failf("alloc-not-linear:"+b.name, "decoding %d bytes allocated %d bytes", len(b.data), alloc), map[string]interface{}{"input": b.name, "n": n})
				return
			}
			if el > 20*time.Second {
				vlib.ReportFailure(t, "C16", "resource-bound", vlib.Failf("decode-hangs:"+b.name, "decoding %d bytes took %v", len(b.data), el), map[string]interface{}{"input": b.name, "n": n})
				return
			}
		}
	}
	vlib.Count("C16", "resource-bound", "five hostile input shapes (nested arrays, long string, many empty qualities, long hex target, zero bytes) at 64 KiB, 512 KiB and the 2 MiB receive limit; oracle: no panic, allocation <= 600*len+16MiB, not slower than 20 s (hang threshold); each shape/size is one non-trivial case", evals, nt, nil, samples)
}

func vlibReplay() bool { return vlib.ReplayMode() }

// FuzzVerif_C16 is the coverage-guided tier (thorough only): the same oracle as hostile-bytes (no panic; an
// accepted input re-encodes to a fixed point) over byte strings evolved by Go's native fuzzer from a corpus of
// valid encodings of all six types and hostile constants. A failing input is saved as a replay of hostile-bytes.
func FuzzVerif_C16(f *testing.F) {
	for ty := 0; ty < 6; ty++ {
		for k := 0; k < 3; k++ {
			c := vfMsgCase{Type: ty, TaskID: bytes.Repeat([]byte{byte(ty + 1)}, 16), Hash: bytes.Repeat([]byte{byte(k + 3)}, 32), Target: []byte{1, byte(k)}, Slot: uint64(k) << 40, Height: uint64(ty),
				SpaceID: strings.Repeat("s", k*5), Index: uint32(k), KSize: 32, Pk: k, Pool: k + 1, Proof: bytes.Repeat([]byte{7}, 8*k)}
			for q := 0; q < k; q++ {
				c.Quals = append(c.Quals, vfQ{SpaceID: "q", Pk: q, Pool: q + 1, Index: uint32(q), KSize: 32, Quality: []byte{1, 2, 3}, PlotID: []byte{9}, Slot: uint64(q)})
			}
			if enc, err := EncodeMessage(c.build()); err == nil {
				f.Add(enc)
			}
		}
	}
	for _, s := range []string{"", "{}", "null", "[]", "{\"task_id\":null}", "{\"qualities\":[null]}", "{\"proof\":null}", "{\"proof\":{}}",
		"{\"task_id\":\"00000000-0000-0000-0000-000000000000\",\"qualities\":[null,null]}", "{\"task_id\":\"00000000-0000-0000-0000-000000000000\",\"proof\":null}", "[[[[[[[["} {
		for ty := 0; ty < 8; ty++ {
			f.Add(append([]byte{0, byte(ty)}, s...))
		}
	}
	f.Fuzz(func(t *testing.T, data []byte) {
		if len(data) > 1<<16 {
			return
		}
		c := vfMsgCase{Raw: data}
		if fl := vfC16Run(c, vlib.NewCtx()); fl != nil {
			path := vlib.SaveReplay("C16", "hostile-bytes", fl, c)
			t.Fatalf("VERIF-FAIL property=C16 check=native-fuzz sig=%s replay=%s: %.1500s", fl.Sig, path, fl.Msg)
		}
	})
}
