package fractal

// C17 — cluster tasks reach the right collectors and reports the right task (DESIGN.md §4 C17).
// In-process topologies: LocalSuperior + local collectors with scripted v2 keepers, optionally a CollectorPool on
// 127.0.0.1:0 with a PersistentRemoteSuperior relay and collectors behind it. Generated task histories (broadcast
// quality tasks, targeted proof / signature tasks, late subscription, waiter reading k of n reports, RemoveTask
// once or twice, stops in generated order). Oracles are built on the content of what was delivered, never on
// upper time bounds; "does not return" verdicts need the stacks of the blocked goroutines.

import (
	"bytes"
	"context"
	"errors"
	"fmt"
	"io"
	"math/big"
	"net"
	"os"
	"path/filepath"
	"runtime"
	"strings"
	"sync"
	"testing"
	"time"

	"github.com/google/uuid"
	"github.com/massnetorg/mass-core/logging"
	"github.com/massnetorg/mass-core/poc/chiapos"
	"github.com/massnetorg/mass-core/poc/pocutil"
	"massnet.org/mass/fractal/connection"
	"massnet.org/mass/fractal/protocol"
	engine_v2 "massnet.org/mass/poc/engine.v2"

	"pgregory.net/rapid"
	"verif/vlib"
)

var vfOnce sync.Once

func vfSetup() {
	vfOnce.Do(func() {
		base := os.Getenv("TMPDIR")
		if base == "" {
			base = os.TempDir()
		}
		d := filepath.Join(base, fmt.Sprintf("vffractallog-%d", os.Getpid()))
		os.MkdirAll(d, 0o755)
		logging.Init(d, "vf.log", "error", 0, true)
	})
}

// ---- scripted v2 keeper -----------------------------------------------------------------------------------

var (
	vfKeyMu sync.Mutex
	vfSk    = map[int]*chiapos.PrivateKey{}
	vfPk    = map[int]*chiapos.G1Element{}
)

func vfKey(i int) (*chiapos.PrivateKey, *chiapos.G1Element) {
	vfKeyMu.Lock()
	defer vfKeyMu.Unlock()
	if k, ok := vfSk[i]; ok {
		return k, vfPk[i]
	}
	sk, err := chiapos.NewAugSchemeMPL().KeyGen(bytes.Repeat([]byte{byte(i + 1)}, 32))
	if err != nil {
		panic(err)
	}
	pk, _ := sk.GetG1()
	vfSk[i], vfPk[i] = sk, pk
	return sk, pk
}

type vfKeeper struct {
	idx          int
	spaceID      string
	nq           int // qualities per request
	mu           sync.Mutex
	qualityCalls map[pocutil.Hash]int
	proofCalls   map[pocutil.Hash]int
	signCalls    map[pocutil.Hash]int
}

func newVfKeeper(idx, nq int) *vfKeeper {
	return &vfKeeper{idx: idx, spaceID: fmt.Sprintf("space-%d", idx), nq: nq, qualityCalls: map[pocutil.Hash]int{}, proofCalls: map[pocutil.Hash]int{}, signCalls: map[pocutil.Hash]int{}}
}

func (k *vfKeeper) quality(ch pocutil.Hash, j int) []byte {
	b := make([]byte, 32)
	copy(b, ch[:8])
	b[30], b[31] = byte(k.idx), byte(j)
	return b
}
func (k *vfKeeper) proofBytes(ch pocutil.Hash, index uint32) []byte {
	return append(append([]byte("proof-of-"), ch[:6]...), byte(k.idx), byte(index))
}

func (k *vfKeeper) Start() error  { return nil }
func (k *vfKeeper) Stop() error   { return nil }
func (k *vfKeeper) Started() bool { return true }
func (k *vfKeeper) Type() string  { return "scripted" }
func (k *vfKeeper) WorkSpaceIDs(engine_v2.WorkSpaceStateFlags) ([]string, error) {
	return []string{k.spaceID}, nil
}
func (k *vfKeeper) WorkSpaceInfos(engine_v2.WorkSpaceStateFlags) ([]engine_v2.WorkSpaceInfo, error) {
	return nil, nil
}
func (k *vfKeeper) GetQuality(ctx context.Context, sid string, ch pocutil.Hash) ([]*engine_v2.WorkSpaceQuality, error) {
	return k.GetQualities(ctx, engine_v2.SFMining, ch)
}
func (k *vfKeeper) GetQualities(ctx context.Context, f engine_v2.WorkSpaceStateFlags, ch pocutil.Hash) ([]*engine_v2.WorkSpaceQuality, error) {
	k.mu.Lock()
	k.qualityCalls[ch]++
	k.mu.Unlock()
	_, pk := vfKey(k.idx)
	_, pool := vfKey(100)
	var out []*engine_v2.WorkSpaceQuality
	for j := 0; j < k.nq; j++ {
		out = append(out, &engine_v2.WorkSpaceQuality{SpaceID: k.spaceID, PublicKey: pk, PoolPublicKey: pool, Index: uint32(j), KSize: 32, Quality: k.quality(ch, j), PlotID: [32]byte{byte(k.idx)}})
	}
	return out, nil
}
func (k *vfKeeper) GetQualityReader(context.Context, string, pocutil.Hash) (engine_v2.QualityReader, error) {
	return nil, errors.New("unsupported")
}
func (k *vfKeeper) GetQualitiesReader(context.Context, engine_v2.WorkSpaceStateFlags, pocutil.Hash) (engine_v2.QualityReader, error) {
	return nil, errors.New("unsupported")
}
func (k *vfKeeper) GetProof(ctx context.Context, sid string, ch pocutil.Hash, index uint32) (*engine_v2.WorkSpaceProof, error) {
	k.mu.Lock()
	k.proofCalls[ch]++
	k.mu.Unlock()
	if sid != k.spaceID {
		return nil, errors.New("no such space")
	}
	_, pk := vfKey(k.idx)
	_, pool := vfKey(100)
	return &engine_v2.WorkSpaceProof{SpaceID: sid, PublicKey: pk, Ordinal: engine_v2.UnknownOrdinal,
		Proof: &chiapos.ProofOfSpace{Challenge: ch, PoolPublicKey: pool, PlotPublicKey: pk, KSize: 32, Proof: k.proofBytes(ch, index)}}, nil
}
func (k *vfKeeper) GetProofs(context.Context, []string, pocutil.Hash, []uint32) ([]*engine_v2.WorkSpaceProof, error) {
	return nil, errors.New("unsupported")
}
func (k *vfKeeper) GetProofReader(context.Context, string, pocutil.Hash, uint32) (engine_v2.ProofReader, error) {
	return nil, errors.New("unsupported")
}
func (k *vfKeeper) GetProofsReader(context.Context, []string, pocutil.Hash, []uint32) (engine_v2.ProofReader, error) {
	return nil, errors.New("unsupported")
}
func (k *vfKeeper) ActOnWorkSpace(string, engine_v2.ActionType) error { return nil }
func (k *vfKeeper) ActOnWorkSpaces(engine_v2.WorkSpaceStateFlags, engine_v2.ActionType) (map[string]error, error) {
	return nil, nil
}
func (k *vfKeeper) SignHash(sid string, hash [32]byte) (*chiapos.G2Element, error) {
	k.mu.Lock()
	k.signCalls[hash]++
	k.mu.Unlock()
	if sid != k.spaceID {
		return nil, errors.New("no such space")
	}
	sk, _ := vfKey(k.idx)
	return chiapos.NewAugSchemeMPL().Sign(sk, hash[:])
}
func (k *vfKeeper) GetPrivateKey(string) (*chiapos.PrivateKey, error) {
	return nil, errors.New("unsupported")
}

// ---- case -------------------------------------------------------------------------------------------------

type vfTask struct {
	Kind        string `json:"kind"` // quality | proof | sig | tquality (a quality request addressed to one collector)
	Target      int    `json:"target"`
	Read        int    `json:"read"`    // quality: reports the waiter reads before it leaves (0 = leaves at once, 99 = all that arrive within the window)
	LateSub     bool   `json:"lateSub"` // a further local collector subscribes while the quality task is current
	RemoveTwice bool   `json:"removeTwice"`
	ViaRelay    bool   `json:"viaRelay,omitempty"` // targeted task: choose the relay when it is connected
}

// vfCut drops the relay's uplink (the TCP connection between relay and pool) at a generated moment.
type vfCut struct {
	After  int  `json:"after"`  // index of the task at which the link is cut
	During bool `json:"during"` // while that task is current (right after it was added) instead of after it completed
	Wait   bool `json:"wait"`   // then wait for the relay's own redial (PersistentRemoteSuperiorRetryInterval, 30 s) before going on
}

// vfStopEv stops one collector (a local one, or one behind the relay) at a generated moment of the history.
type vfStopEv struct {
	After  int  `json:"after"`  // index of the task at which the collector is stopped
	During bool `json:"during"` // while that (quality) task is current instead of after it completed
	Remote bool `json:"remote"` // a collector behind the relay instead of a directly connected one
	Which  int  `json:"which"`
}

type vfC17Case struct {
	StopColl *vfStopEv `json:"stopColl,omitempty"`
	Cut      *vfCut    `json:"cut,omitempty"`
	NLocal   int       `json:"nlocal"`
	Relay    bool      `json:"relay"`
	NRemote  int       `json:"nremote"`
	NQ       int       `json:"nq"` // qualities per keeper answer
	Tasks    []vfTask  `json:"tasks"`
	Stop     []string  `json:"stop"` // order in which the parts are stopped at the end
}

func vfGenC17(t *rapid.T) vfC17Case {
	c := vfC17Case{NLocal: rapid.IntRange(0, 4).Draw(t, "nlocal"), Relay: rapid.IntRange(0, 2).Draw(t, "relay") == 0, NQ: rapid.IntRange(1, 3).Draw(t, "nq")}
	if c.Relay {
		c.NRemote = rapid.IntRange(1, 3).Draw(t, "nremote")
	}
	if c.NLocal == 0 && !c.Relay {
		c.NLocal = 2
	}
	n := rapid.IntRange(1, 4).Draw(t, "ntasks")
	for i := 0; i < n; i++ {
		c.Tasks = append(c.Tasks, vfTask{Kind: rapid.SampledFrom([]string{"quality", "quality", "quality", "proof", "sig", "tquality"}).Draw(t, "kind"), Target: rapid.IntRange(0, 6).Draw(t, "target"),
			Read: rapid.SampledFrom([]int{0, 0, 1, 3, 99}).Draw(t, "read"), LateSub: rapid.IntRange(0, 3).Draw(t, "late") == 0, RemoveTwice: rapid.Bool().Draw(t, "twice")})
	}
	c.Stop = rapid.Permutation([]string{"collectors", "relay", "pool"}).Draw(t, "stop")
	if rapid.IntRange(0, 2).Draw(t, "stopColl") == 0 {
		c.StopColl = &vfStopEv{After: rapid.IntRange(0, len(c.Tasks)-1).Draw(t, "stopAfter"), During: rapid.Bool().Draw(t, "stopDuring"),
			Remote: c.Relay && rapid.Bool().Draw(t, "stopRemote"), Which: rapid.IntRange(0, 3).Draw(t, "stopWhich")}
	}
	if c.Relay && rapid.IntRange(0, 1).Draw(t, "cut") == 0 {
		c.Cut = &vfCut{After: rapid.IntRange(0, len(c.Tasks)-1).Draw(t, "cutAfter"), During: rapid.Bool().Draw(t, "cutDuring"), Wait: rapid.IntRange(0, 3).Draw(t, "cutWait") == 0}
		if c.Cut.Wait && c.Cut.After == len(c.Tasks)-1 {
			c.Tasks = append(c.Tasks, vfTask{Kind: rapid.SampledFrom([]string{"quality", "proof", "sig"}).Draw(t, "postKind"), Target: 6, Read: 99})
		}
		for i := c.Cut.After + 1; i < len(c.Tasks); i++ {
			c.Tasks[i].ViaRelay = rapid.Bool().Draw(t, "viaRelay")
			if c.Tasks[i].Kind == "quality" && rapid.Bool().Draw(t, "readAll") {
				c.Tasks[i].Read = 99
			}
		}
	}
	return c
}

// vfForwarder is a TCP forwarder between the relay and the pool, so that the harness can drop the link.
type vfForwarder struct {
	ln       net.Listener
	target   string
	mu       sync.Mutex
	conns    []net.Conn
	closed   bool
	accepted int
}

func newVfForwarder(target string) (*vfForwarder, error) {
	ln, err := net.Listen("tcp", "127.0.0.1:0")
	if err != nil {
		return nil, err
	}
	f := &vfForwarder{ln: ln, target: target}
	go func() {
		for {
			c, err := ln.Accept()
			if err != nil {
				return
			}
			u, err := net.Dial("tcp", f.target)
			if err != nil {
				c.Close()
				continue
			}
			f.mu.Lock()
			if f.closed {
				f.mu.Unlock()
				c.Close()
				u.Close()
				return
			}
			f.conns = append(f.conns, c, u)
			f.accepted++
			f.mu.Unlock()
			go func() { io.Copy(u, c); u.Close(); c.Close() }()
			go func() { io.Copy(c, u); u.Close(); c.Close() }()
		}
	}()
	return f, nil
}

func (f *vfForwarder) addr() string { return f.ln.Addr().String() }

// cut closes every connection that is currently forwarded; the listener stays, so a redial succeeds
func (f *vfForwarder) cut() {
	f.mu.Lock()
	cs := f.conns
	f.conns = nil
	f.mu.Unlock()
	for _, c := range cs {
		c.Close()
	}
}

func (f *vfForwarder) close() {
	f.mu.Lock()
	f.closed = true
	f.mu.Unlock()
	f.ln.Close()
	f.cut()
}

type vfLocal struct {
	lc     *LocalCollector
	cancel context.CancelFunc
	k      *vfKeeper
	dead   bool // stopped by a generated event
}

func vfStopWithWatchdog(what string, f func()) *vlib.Failure {
	done := make(chan struct{})
	go func() { f(); close(done) }()
	select {
	case <-done:
		return nil
	case <-time.After(12 * time.Second):
		buf := make([]byte, 1<<17)
		buf = buf[:runtime.Stack(buf, true)]
		var rel []string
		for _, g := range strings.Split(string(buf), "\n\n") {
			if strings.Contains(g, "massnet.org/mass/fractal") && !strings.Contains(g, "vfStopWithWatchdog") {
				rel = append(rel, g)
			}
		}
		return vlib.Failf("stop-does-not-return:"+what, "stopping the %s did not return; fractal goroutines:\n%s", what, strings.Join(rel, "\n\n"))
	}
}

func vfC17Run(c vfC17Case, ctx *vlib.Ctx) *vlib.Failure {
	vfSetup()
	bg := context.Background()
	ls := NewLocalSuperior()
	defer ls.Release()
	var locals []*vfLocal
	var keepers []*vfKeeper
	for i := 0; i < c.NLocal; i++ {
		k := newVfKeeper(i, c.NQ)
		lc, cancel := NewLocalCollector(bg, ls, k)
		locals = append(locals, &vfLocal{lc: lc, cancel: cancel, k: k})
		keepers = append(keepers, k)
	}
	// relay: pool on the superior, a persistent remote superior dialling it, collectors behind that
	var pool *CollectorPool
	var poolCancel, relayCancel context.CancelFunc
	var remotes []*vfLocal
	var fwd *vfForwarder
	if c.Relay {
		var err error
		pool, poolCancel, err = NewCollectorPool(bg, ls, CollectorPoolListenAddress("127.0.0.1:0"))
		if err != nil {
			return vlib.Failf("harness:pool", "%v", err)
		}
		fwd, err = newVfForwarder(pool.listener.Addr().String())
		if err != nil {
			poolCancel()
			return vlib.Failf("harness:forwarder", "%v", err)
		}
		defer fwd.close()
		prs, cancel, err := NewPersistentRemoteSuperior(bg, connection.DialAddress(fwd.addr()))
		if err != nil {
			poolCancel()
			return vlib.Failf("harness:relay", "%v", err)
		}
		relayCancel = cancel
		for i := 0; i < c.NRemote; i++ {
			k := newVfKeeper(10+i, c.NQ)
			lc, cancel := NewLocalCollector(bg, prs, k)
			remotes = append(remotes, &vfLocal{lc: lc, cancel: cancel, k: k})
			keepers = append(keepers, k)
		}
		// the collectors behind the relay subscribe in their own goroutines: wait until the relay knows them all
		for i := 0; i < 3000; i++ {
			prs.RemoteSuperior.l.RLock()
			n := len(prs.RemoteSuperior.collectors)
			prs.RemoteSuperior.l.RUnlock()
			if n >= c.NRemote {
				break
			}
			time.Sleep(time.Millisecond)
		}
		// wait until the pool has registered the relay connection
		for i := 0; i < 2000 && pool.Count() == 0; i++ {
			time.Sleep(time.Millisecond)
		}
		if pool.Count() == 0 {
			return vlib.Failf("harness:relay-not-connected", "pool has no collector after 2 s")
		}
	}
	// subscriptions happen in the collectors' goroutines: wait until the superior knows all of them
	want := len(locals)
	if c.Relay {
		want++
	}
	for i := 0; i < 2000; i++ {
		ls.l.RLock()
		n := len(ls.collectors)
		ls.l.RUnlock()
		if n >= want {
			break
		}
		time.Sleep(time.Millisecond)
	}
	relayID := uuid.Nil
	if c.Relay {
		pool.l.RLock()
		for id := range pool.collectors {
			relayID = id
		}
		pool.l.RUnlock()
	}
	nowSlot := uint64(time.Now().Unix()) / pocSlot
	inFlightRemove, manyReports := false, false
	relayUp := c.Relay
	stopDone := false
	deadKeeper := map[int]bool{}
	cutDone := false
	cutSeen := false // the pool dropped the relay's collector after the cut
	var cutAt time.Time
	// doCut drops the relay's uplink; with Wait it returns only when the relay has redialled on its own
	doCut := func(where string) *vlib.Failure {
		cutDone = true
		cutAt = time.Now()
		old := relayID
		fwd.cut()
		relayUp = false
		ctx.Label("uplink-cut")
		cutSeen = false
		for i := 0; i < 5000; i++ { // the pool notices the loss
			pool.l.RLock()
			_, still := pool.collectors[old]
			pool.l.RUnlock()
			if !still {
				cutSeen = true
				break
			}
			time.Sleep(time.Millisecond)
		}
		if !cutSeen {
			ctx.Label("cut-not-noticed-by-pool-within-5s")
		}
		if !c.Cut.Wait {
			return nil
		}
		deadline := time.Now().Add(PersistentRemoteSuperiorRetryInterval + 25*time.Second)
		for time.Now().Before(deadline) {
			pool.l.RLock()
			for id := range pool.collectors {
				if id != old {
					relayID = id
					relayUp = true
				}
			}
			pool.l.RUnlock()
			if relayUp {
				break
			}
			time.Sleep(20 * time.Millisecond)
		}
		if !relayUp {
			// not judged: the redial is the relay's own timer plus a TCP dial on a busy machine; the history goes on
			// without the relay
			ctx.Label("uplink-redial-not-observed")
			ctx.Notef("%s: no new relay connection at the pool %v after the cut\n%s", where, PersistentRemoteSuperiorRetryInterval+25*time.Second, vfBlockedFractal("note", "").Msg)
			return nil
		}
		// the superior learns the new collector in the pool's goroutine
		for i := 0; i < 3000; i++ {
			ls.l.RLock()
			_, ok := ls.collectors[relayID]
			ls.l.RUnlock()
			if ok {
				break
			}
			time.Sleep(time.Millisecond)
		}
		ctx.Label("uplink-redialled")
		return nil
	}
	var lateLocals []*vfLocal
	for ti, task := range c.Tasks {
		where := fmt.Sprintf("task#%d %s", ti, task.Kind)
		var ch pocutil.Hash
		ch[0], ch[1], ch[2] = 0xc1, byte(ti+1), byte(len(keepers))
		copy(ch[8:], []byte(where))
		// choose the target among directly connected collectors (or the relay)
		type tgt struct {
			id      uuid.UUID
			keepers []*vfKeeper
			behind  bool
		}
		var targets []tgt
		for _, l := range locals {
			if !l.dead {
				targets = append(targets, tgt{l.lc.ID(), []*vfKeeper{l.k}, false})
			}
		}
		if c.Relay && relayUp {
			var ks []*vfKeeper
			for _, r := range remotes {
				if !r.dead {
					ks = append(ks, r.k)
				}
			}
			if len(ks) > 0 {
				targets = append(targets, tgt{relayID, ks, true})
			}
		}
		// a generated stop of one collector
		stopNow := c.StopColl != nil && !stopDone && c.StopColl.After == ti
		stoppedDuringThis := -1 // keeper index
		doStop := func() *vlib.Failure {
			stopDone = true
			pool := locals
			if c.StopColl.Remote {
				pool = remotes
			}
			var alive []*vfLocal
			for _, l := range pool {
				if !l.dead {
					alive = append(alive, l)
				}
			}
			if len(alive) == 0 {
				return nil
			}
			l := alive[c.StopColl.Which%len(alive)]
			if f := vfStopWithWatchdog("collector", func() { l.cancel() }); f != nil {
				return f
			}
			l.dead = true
			deadKeeper[l.k.idx] = true
			stoppedDuringThis = l.k.idx
			ctx.Label("collector-stopped-mid-history")
			return nil
		}
		cutNow := c.Cut != nil && !cutDone && c.Cut.After == ti
		cutDuringThis := false
		if len(targets) == 0 {
			// only the relay was connected and its uplink is down: nobody to ask
			ctx.Label("task-skipped-nobody-connected")
			if cutNow {
				if f := doCut(where); f != nil {
					return f
				}
			}
			continue
		}
		switch task.Kind {
		case "proof", "sig":
			tg := targets[task.Target%len(targets)]
			if task.ViaRelay && targets[len(targets)-1].behind {
				tg = targets[len(targets)-1]
			}
			kp := tg.keepers[task.Target%len(tg.keepers)]
			var req protocol.Message
			id := uuid.New()
			if task.Kind == "proof" {
				req = &protocol.RequestProof{TaskID: id, Height: 7, SpaceID: kp.spaceID, Challenge: ch, Index: uint32(ti)}
			} else {
				req = &protocol.RequestSignature{TaskID: id, Height: 7, SpaceID: kp.spaceID, Hash: ch}
			}
			if cutNow && c.Cut.During && !tg.behind {
				// the link drops while a task for a directly connected collector is under way
				go fwd.cut()
			}
			rch := ls.AddTask(bg, tg.id, req)
			var msg *CollectorMsg
			select {
			case msg = <-rch:
			case <-time.After(5 * time.Second): // the real waiter's bound
			}
			if f := vfStopWithWatchdog("RemoveTask", func() { ls.RemoveTask(id) }); f != nil {
				return f
			}
			if task.RemoveTwice {
				ls.RemoveTask(id)
			}
			if msg == nil {
				return vlib.Failf("targeted-report-not-delivered", "%s to collector %s (behind relay=%v): no report within the waiter's 5 s", where, tg.id, tg.behind)
			}
			if msg.CollectorID != tg.id {
				return vlib.Failf("report-tagged-with-wrong-collector", "%s: report tagged %s, task was sent to %s", where, msg.CollectorID, tg.id)
			}
			if msg.Msg.ID() != id {
				return vlib.Failf("report-on-wrong-task-channel", "%s: report for task %s arrived on the channel of %s", where, msg.Msg.ID(), id)
			}
			if task.Kind == "proof" {
				rp, ok := msg.Msg.(*protocol.ReportProof)
				if !ok || rp.Proof.SpaceID != kp.spaceID || !bytes.Equal(rp.Proof.Proof.Proof, kp.proofBytes(ch, uint32(ti))) || rp.Proof.Proof.Challenge != ch {
					return vlib.Failf("report-modified", "%s: delivered proof differs from what the keeper produced", where)
				}
			} else {
				rs, ok := msg.Msg.(*protocol.ReportSignature)
				skk, _ := vfKey(kp.idx)
				wantSig, _ := chiapos.NewAugSchemeMPL().Sign(skk, ch[:])
				if !ok || rs.SpaceID != kp.spaceID || rs.Hash != ch || !bytes.Equal(rs.Signature.Bytes(), wantSig.Bytes()) {
					return vlib.Failf("report-modified", "%s: delivered signature differs from what the keeper produced", where)
				}
			}
			// only the target (resp. the collectors behind the targeted relay) saw the request
			for _, k := range keepers {
				k.mu.Lock()
				n := k.proofCalls[ch] + k.signCalls[ch]
				k.mu.Unlock()
				isTarget := false
				for _, tk := range tg.keepers {
					if tk == k {
						isTarget = true
					}
				}
				if n > 0 && !isTarget {
					return vlib.Failf("targeted-task-reached-other-collector", "%s for collector %s was also served by keeper %d", where, tg.id, k.idx)
				}
			}
			if n := func() int { kp.mu.Lock(); defer kp.mu.Unlock(); return kp.proofCalls[ch] + kp.signCalls[ch] }(); n != 1 {
				return vlib.Failf("targeted-task-not-exactly-once", "%s: the target keeper served it %d times", where, n)
			}
		case "tquality":
			tg := targets[task.Target%len(targets)]
			if task.ViaRelay && targets[len(targets)-1].behind {
				tg = targets[len(targets)-1]
			}
			id := uuid.New()
			req := &protocol.RequestQualities{TaskID: id, Challenge: ch, ParentTarget: bigOne(), ParentSlot: nowSlot - 1, Height: 7}
			rch := ls.AddTask(bg, tg.id, req)
			// a collector that connects while this task is the most recent one is not its target
			var late *vfLocal
			if task.LateSub {
				k := newVfKeeper(50+ti, c.NQ)
				lc, cancel := NewLocalCollector(bg, ls, k)
				late = &vfLocal{lc: lc, cancel: cancel, k: k}
				lateLocals = append(lateLocals, late)
			}
			var msg *CollectorMsg
			select {
			case msg = <-rch:
			case <-time.After(5 * time.Second): // the real waiter's bound
			}
			time.Sleep(300 * time.Millisecond)
			if f := vfStopWithWatchdog("RemoveTask", func() { ls.RemoveTask(id) }); f != nil {
				return f
			}
			// per connection and space the reports arrive in ascending slot order (also those queued before the removal)
			tqLast := map[string]uint64{}
			tqOrder := func(m *CollectorMsg) *vlib.Failure {
				rq, ok := m.Msg.(*protocol.ReportQualities)
				if !ok {
					return nil
				}
				seenSpace := map[string]bool{}
				for _, q := range rq.Qualities {
					key := m.CollectorID.String() + "/" + q.SpaceID
					if seenSpace[key] {
						continue
					}
					seenSpace[key] = true
					if last, ok := tqLast[key]; ok && q.Slot <= last {
						return vlib.Failf("reports-out-of-order-on-one-connection", "%s: collector %s, space %s: report for slot %d delivered after the report for slot %d", where, m.CollectorID, q.SpaceID, q.Slot, last)
					}
					tqLast[key] = q.Slot
				}
				return nil
			}
			if msg != nil {
				if f := tqOrder(msg); f != nil {
					return f
				}
			}
			for m := range rch { // reports queued before the removal
				if f := tqOrder(m); f != nil {
					return f
				}
			}
			if msg == nil {
				return vlib.Failf("targeted-report-not-delivered", "%s to collector %s (behind relay=%v): no quality report within the waiter's 5 s", where, tg.id, tg.behind)
			}
			if msg.CollectorID != tg.id || msg.Msg.ID() != id {
				return vlib.Failf("report-tagged-with-wrong-collector", "%s: report tagged %s for task %s, the task %s was sent to %s", where, msg.CollectorID, msg.Msg.ID(), id, tg.id)
			}
			others := append([]*vfKeeper(nil), keepers...)
			if late != nil {
				others = append(others, late.k)
			}
			for _, l := range lateLocals {
				others = append(others, l.k)
			}
			for _, k := range others {
				k.mu.Lock()
				n := k.qualityCalls[ch]
				k.mu.Unlock()
				isTarget := false
				for _, tk := range tg.keepers {
					if tk == k {
						isTarget = true
					}
				}
				if n > 0 && !isTarget {
					return vlib.Failf("targeted-task-reached-other-collector", "%s for collector %s was also served by keeper %d", where, tg.id, k.idx)
				}
			}
			ctx.Label("targeted-quality-task")
		case "quality":
			id := uuid.New()
			req := &protocol.RequestQualities{TaskID: id, Challenge: ch, ParentTarget: bigOne(), ParentSlot: nowSlot - 1, Height: 7}
			rch := ls.AddTask(bg, uuid.Nil, req)
			if stopNow && c.StopColl.During {
				if f := doStop(); f != nil {
					return f
				}
			}
			if cutNow && c.Cut.During {
				cutDuringThis = true
				if f := doCut(where); f != nil {
					return f
				}
			}
			if task.LateSub {
				k := newVfKeeper(50+ti, c.NQ)
				lc, cancel := NewLocalCollector(bg, ls, k)
				l := &vfLocal{lc: lc, cancel: cancel, k: k}
				lateLocals = append(lateLocals, l)
			}
			// the waiter reads task.Read reports within the first collector tick(s), then leaves
			got := 0
			// per connection (collector id) and space the reports arrive in the order they were sent: one report per
			// slot, slots ascending
			lastSlot := map[string]uint64{}
			inOrder := func(m *CollectorMsg) *vlib.Failure {
				rq, ok := m.Msg.(*protocol.ReportQualities)
				if !ok {
					return nil
				}
				seenSpace := map[string]bool{}
				for _, q := range rq.Qualities {
					key := m.CollectorID.String() + "/" + q.SpaceID
					if seenSpace[key] {
						continue
					}
					seenSpace[key] = true
					if last, ok := lastSlot[key]; ok && q.Slot <= last {
						return vlib.Failf("reports-out-of-order-on-one-connection", "%s: collector %s, space %s: report for slot %d delivered after the report for slot %d", where, m.CollectorID, q.SpaceID, q.Slot, last)
					}
					lastSlot[key] = q.Slot
				}
				return nil
			}
			var seenIDs []uuid.UUID
			var first *CollectorMsg
			deadline := time.After(2200 * time.Millisecond)
		read:
			for got < task.Read {
				select {
				case m, ok := <-rch:
					if !ok {
						return vlib.Failf("task-channel-closed-early", "%s", where)
					}
					if first == nil {
						first = m
					}
					seenIDs = append(seenIDs, m.CollectorID)
					if f := inOrder(m); f != nil {
						return f
					}
					got++
					if m.Msg.ID() != id {
						return vlib.Failf("report-on-wrong-task-channel", "%s: report for %s", where, m.Msg.ID())
					}
					rq, ok := m.Msg.(*protocol.ReportQualities)
					if !ok || len(rq.Qualities) == 0 {
						return vlib.Failf("report-modified", "%s: not a quality report", where)
					}
					// tagged with a collector that is connected, content produced by a keeper behind that collector
					var src *tgt
					for i := range targets {
						if targets[i].id == m.CollectorID {
							src = &targets[i]
						}
					}
					if src == nil && c.Relay && relayUp && m.CollectorID == relayID {
						// the relay redialled while this task was current: it is a new collector for the pool
						var ks []*vfKeeper
						for _, r := range remotes {
							ks = append(ks, r.k)
						}
						src = &tgt{relayID, ks, true}
					}
					if src == nil {
						late := false
						for _, l := range lateLocals {
							if l.lc.ID() == m.CollectorID {
								late = true
								src = &tgt{l.lc.ID(), []*vfKeeper{l.k}, false}
							}
						}
						if !late {
							return vlib.Failf("report-tagged-with-wrong-collector", "%s: report tagged with unknown collector %s", where, m.CollectorID)
						}
					}
					for _, q := range rq.Qualities {
						ok := false
						for _, k := range src.keepers {
							if q.SpaceID == k.spaceID && int(q.Index) < k.nq && bytes.Equal(q.Quality, k.quality(ch, int(q.Index))) {
								ok = true
							}
						}
						if !ok {
							return vlib.Failf("report-modified", "%s: quality %s/%d tagged %s was not produced by a keeper behind that collector", where, q.SpaceID, q.Index, m.CollectorID)
						}
					}
				case <-deadline:
					break read
				}
			}
			if task.Read >= 99 && !cutDuringThis {
				// a waiter that stays reads a report from every connected collector: the keepers' qualities are all
				// above the target. The window is extended to the real waiter's 5 s before anything is concluded.
				seen := map[uuid.UUID]bool{}
				if first != nil {
					seen[first.CollectorID] = true
				}
				missing := func() []uuid.UUID {
					var out []uuid.UUID
					for _, tg := range targets {
						if !seen[tg.id] {
							allDead := true
							for _, k := range tg.keepers {
								if !deadKeeper[k.idx] {
									allDead = false
								}
							}
							if !allDead {
								out = append(out, tg.id)
							}
						}
					}
					return out
				}
				for _, id := range seenIDs {
					seen[id] = true
				}
				ext := time.After(5 * time.Second)
			more:
				for len(missing()) > 0 {
					select {
					case m, ok := <-rch:
						if !ok {
							break more
						}
						seen[m.CollectorID] = true
						if f := inOrder(m); f != nil {
							return f
						}
						got++
					case <-ext:
						break more
					}
				}
				if miss := missing(); len(miss) > 0 {
					behind := false
					for _, tg := range targets {
						if tg.id == miss[0] {
							behind = tg.behind
						}
					}
					return vfBlockedFractal("broadcast-report-not-delivered", fmt.Sprintf("%s: the waiter stayed for more than 5 s but never got a report tagged with connected collector %s (relay=%v); reports seen from %d of %d collectors", where, miss[0], behind, len(seen), len(targets)))
				}
			}
			stayedConnected := 0 // collectors that were connected for the whole task
			aliveKeeper := func(tg tgt) *vfKeeper {
				for _, k := range tg.keepers {
					if !deadKeeper[k.idx] {
						return k
					}
				}
				return nil
			}
			for _, tg := range targets {
				if aliveKeeper(tg) == nil {
					continue // its collector(s) were stopped during this task
				}
				if !tg.behind || (relayUp && !cutDuringThis) {
					stayedConnected++
				}
			}
			if task.Read > 0 && got == 0 && stayedConnected > 0 {
				return vlib.Failf("broadcast-report-not-delivered", "%s: no quality report within 2.2 s although %d collectors that stayed connected hold qualities above the target", where, stayedConnected)
			}
			if task.Read == 0 || got < 99 {
				inFlightRemove = true
			}
			if got > 10 {
				manyReports = true
			}
			// let further reports pile up (the collectors look 11 slots ahead), then leave like the real waiter does
			if task.Read < 99 {
				time.Sleep(900 * time.Millisecond)
			}
			if f := vfStopWithWatchdog("RemoveTask", func() { ls.RemoveTask(id) }); f != nil {
				return f
			}
			if task.RemoveTwice {
				if f := vfStopWithWatchdog("RemoveTask", func() { ls.RemoveTask(id) }); f != nil {
					return f
				}
			}
			// every connected collector was asked (exactly once each in this sequenced history)
			for _, k := range keepers {
				k.mu.Lock()
				n := k.qualityCalls[ch]
				k.mu.Unlock()
				if deadKeeper[k.idx] {
					// its collector was stopped before or during this task: asked at most once
					if n > 1 {
						return vlib.Failf("broadcast-not-exactly-once", "%s: keeper %d (collector stopped) was asked %d times", where, k.idx, n)
					}
					continue
				}
				if k.idx >= 10 && k.idx < 50 && (cutDuringThis || !relayUp) {
					// behind the relay whose uplink was down for (part of) this task: not asked, or asked once; when the
					// relay came back while the task was still current it is handed the current task again
					if !cutDuringThis && n > 0 && cutSeen && pool.Count() == 0 {
						fwd.mu.Lock()
						acc, live := fwd.accepted, len(fwd.conns)
						fwd.mu.Unlock()
						return vlib.Failf("broadcast-reached-disconnected-collector", "%s: keeper %d behind the disconnected relay was asked %d times (cut %v ago, pool has %d collectors, forwarder accepted %d connections, %d sockets live)", where, k.idx, n, time.Since(cutAt), pool.Count(), acc, live)
					}
					continue
				}
				if n != 1 {
					return vlib.Failf("broadcast-not-exactly-once", "%s: keeper %d was asked %d times", where, k.idx, n)
				}
			}
			if task.LateSub {
				l := lateLocals[len(lateLocals)-1]
				ok := false
				for i := 0; i < 1500 && !ok; i++ {
					l.k.mu.Lock()
					ok = l.k.qualityCalls[ch] > 0
					l.k.mu.Unlock()
					if !ok {
						time.Sleep(time.Millisecond)
					}
				}
				// the late collector subscribed while the task was current (before RemoveTask): it must have been asked
				if !ok {
					ctx.Label("late-subscriber-after-remove") // subscription raced with RemoveTask: not judged
				}
			}
			// the removed task's channel is closed and nothing is delivered to it any more
			time.Sleep(20 * time.Millisecond)
			for {
				m, ok := <-rch
				if !ok {
					break
				}
				_ = m // reports queued before the removal
			}
			// other tasks still complete afterwards
			var later *tgt
			for i := range targets {
				if targets[i].behind {
					if !relayUp {
						continue // the relay's uplink was cut during this task
					}
					targets[i].id = relayID // possibly a new connection after a redial
				}
				if aliveKeeper(targets[i]) == nil {
					continue // stopped during this task
				}
				later = &targets[i]
				break
			}
			if later != nil {
				tg := *later
				kp := aliveKeeper(tg)
				var ch2 pocutil.Hash
				copy(ch2[:], ch[:])
				ch2[31] = 0xaa
				id2 := uuid.New()
				rch2 := ls.AddTask(bg, tg.id, &protocol.RequestProof{TaskID: id2, Height: 7, SpaceID: kp.spaceID, Challenge: ch2, Index: 1})
				var m2 *CollectorMsg
				select {
				case m2 = <-rch2:
				case <-time.After(5 * time.Second):
				}
				if f := vfStopWithWatchdog("RemoveTask", func() { ls.RemoveTask(id2) }); f != nil {
					return f
				}
				if m2 == nil {
					return vfBlockedFractal("later-task-blocked", fmt.Sprintf("%s: a proof task issued after the quality task was removed got no report within 5 s", where))
				}
			}
		}
		if cutNow && !cutDone {
			if f := doCut(where); f != nil {
				return f
			}
		}
		if stopNow && !stopDone {
			if f := doStop(); f != nil {
				return f
			}
		}
		_ = stoppedDuringThis
	}
	// ---- stops, in generated order
	_ = cutDone
	stopLocals := func() *vlib.Failure {
		for _, l := range append(append(append([]*vfLocal{}, locals...), remotes...), lateLocals...) {
			l := l
			if l.dead {
				continue
			}
			if f := vfStopWithWatchdog("collector", func() { l.cancel() }); f != nil {
				return f
			}
		}
		return nil
	}
	done := map[string]bool{}
	for _, s := range c.Stop {
		switch s {
		case "collectors":
			if f := stopLocals(); f != nil {
				return f
			}
		case "relay":
			if relayCancel != nil {
				if f := vfStopWithWatchdog("relay", func() { relayCancel() }); f != nil {
					return f
				}
			}
		case "pool":
			if poolCancel != nil {
				if f := vfStopWithWatchdog("pool", func() { poolCancel() }); f != nil {
					return f
				}
			}
		}
		done[s] = true
	}
	ctx.LabelN("keepers", len(keepers))
	if c.Relay {
		ctx.Label("relay")
	}
	if (len(keepers) >= 2 && c.Relay) || inFlightRemove || manyReports || c.Cut != nil || c.StopColl != nil {
		ctx.NonTrivial()
	}
	return nil
}

func vfBlockedFractal(sig, msg string) *vlib.Failure {
	buf := make([]byte, 1<<17)
	buf = buf[:runtime.Stack(buf, true)]
	var rel []string
	for _, g := range strings.Split(string(buf), "\n\n") {
		if strings.Contains(g, "massnet.org/mass/fractal.(") {
			rel = append(rel, g)
		}
	}
	return vlib.Failf(sig, "%s; fractal goroutines:\n%s", msg, strings.Join(rel, "\n\n"))
}

var vfC17Spec = vlib.Spec[vfC17Case]{
	Prop: "C17", Name: "topology-histories", NoShrink: true,
	Rule: "topologies of a LocalSuperior with 0-4 local collectors and optionally a CollectorPool (127.0.0.1:0) + PersistentRemoteSuperior relay with 1-3 collectors behind it, each collector on a scripted keeper; histories of 1-4 tasks (quality task addressed to one collector, optionally with a collector connecting right after it; broadcast quality task with a waiter that reads 0/1/3/all reports and then leaves, targeted proof task, targeted signature task, late subscriber, RemoveTask once or twice), one collector (local or behind the relay) stopped after or during a generated task, the relay's uplink (through a TCP forwarder) cut after or during a generated task, optionally followed by waiting for the relay's own redial (30 s) and further tasks through it, stops in generated order; oracles: targeted tasks are served exactly once by the target only, reports arrive on the channel of the task they name, tagged with the collector they came through, with the content the scripted keeper produced, per collector and space in ascending slot order; every collector is asked exactly once per broadcast; RemoveTask and every stop return (verdict with goroutine stacks), a later task still completes; non-trivial = >=2 keepers with a relay, or a remove while reports are in flight, or >10 reports for one task; distinct = distinct case JSON",
	Gen:  vfGenC17, Run: vfC17Run,
}


// ---- stalled peer ------------------------------------------------------------------------------------------
// One connection to the pool stays open but is never read (hung process, stalled link; the pool drops it only after
// the 60 s keepalive timeout). Tasks keep arriving. "No permanent blocking of other tasks": every AddTask, every
// Subscribe and every collector stop still returns and the healthy collectors still receive every task.

type vfStallCase struct {
	NHealthy  int  `json:"nhealthy"`  // relays dialled into the pool, one recording collector behind each
	NDirect   int  `json:"ndirect"`   // recording collectors subscribed to the superior directly
	HungAt    int  `json:"hungAt"`    // index of the task before which the hung peer connects
	Tasks     int  `json:"tasks"`     // broadcast quality tasks (each removed when the next one was added)
	PayloadKB int  `json:"payloadKB"` // size of each request (ParentTarget), below the 2 MiB receive limit
	LateAt    int  `json:"lateAt"`    // a further direct collector subscribes before this task (-1: none)
	LeaveAt   int  `json:"leaveAt"`   // healthy relay 0 is stopped before this task (-1: none)
	Targeted  int  `json:"targeted"`  // every n-th task is followed by a targeted proof task to a direct collector (0: none)
	SmallRcv  bool `json:"smallRcv"`  // the hung peer shrinks its receive buffer
}

type vfSink struct {
	id uuid.UUID
	mu sync.Mutex
	in map[uuid.UUID]int
}

func newVfSink() *vfSink { return &vfSink{id: uuid.New(), in: map[uuid.UUID]int{}} }
func (s *vfSink) ID() uuid.UUID { return s.id }
func (s *vfSink) add(m protocol.Message) error {
	s.mu.Lock()
	s.in[m.ID()]++
	s.mu.Unlock()
	return nil
}
func (s *vfSink) RequestQualities(_ context.Context, r *protocol.RequestQualities) error { return s.add(r) }
func (s *vfSink) RequestProof(_ context.Context, r *protocol.RequestProof) error         { return s.add(r) }
func (s *vfSink) RequestSignature(_ context.Context, r *protocol.RequestSignature) error { return s.add(r) }
func (s *vfSink) count(id uuid.UUID) int {
	s.mu.Lock()
	defer s.mu.Unlock()
	return s.in[id]
}

const vfStallBound = 30 * time.Second // well below the 60 s after which the pool drops the silent peer on its own

// vfReturns runs f in a goroutine; a call that has not returned after vfStallBound is a verdict with the stacks.
func vfReturns(sig, what string, f func()) *vlib.Failure {
	done := make(chan struct{})
	go func() { defer close(done); f() }()
	select {
	case <-done:
		return nil
	case <-time.After(vfStallBound):
		return vfBlockedFractal(sig, fmt.Sprintf("%s did not return within %v while one peer of the pool does not read its connection", what, vfStallBound))
	}
}

func vfStallRun(c vfStallCase, ctx *vlib.Ctx) *vlib.Failure {
	vfSetup()
	bg, cancelAll := context.WithCancel(context.Background())
	defer cancelAll()
	ls := NewLocalSuperior()
	defer ls.Release()
	pool, poolCancel, err := NewCollectorPool(bg, ls, CollectorPoolListenAddress("127.0.0.1:0"))
	if err != nil {
		return vlib.Failf("harness:pool", "%v", err)
	}
	defer poolCancel()
	addr := pool.listener.Addr().String()
	subscribed := func() int {
		ls.l.RLock()
		defer ls.l.RUnlock()
		return len(ls.collectors)
	}
	waitSubs := func(n int) bool {
		for i := 0; i < 5000; i++ {
			if subscribed() >= n {
				return true
			}
			time.Sleep(time.Millisecond)
		}
		return false
	}
	type node struct {
		sink   *vfSink
		cancel context.CancelFunc
		gone   bool
	}
	var relays []*node
	for i := 0; i < c.NHealthy; i++ {
		prs, cancel, err := NewPersistentRemoteSuperior(bg, connection.DialAddress(addr))
		if err != nil {
			return vlib.Failf("harness:relay", "%v", err)
		}
		defer cancel()
		n := &node{sink: newVfSink(), cancel: cancel}
		prs.Subscribe(bg, n.sink)
		relays = append(relays, n)
	}
	var direct []*vfSink
	for i := 0; i < c.NDirect; i++ {
		s := newVfSink()
		ls.Subscribe(bg, s)
		direct = append(direct, s)
	}
	want := c.NHealthy + c.NDirect
	if !waitSubs(want) {
		return vlib.Failf("harness:stall-subscribe", "want %d collectors at the superior, have %d", want, subscribed())
	}
	var hung net.Conn
	defer func() {
		if hung != nil {
			hung.Close()
		}
	}()
	target := new(big.Int).Lsh(big.NewInt(1), uint(8*1024*c.PayloadKB))
	var ids, tids []uuid.UUID
	var tsinks []*vfSink
	idSince := map[*vfSink]int{} // first task index a sink must see
	for _, n := range relays {
		idSince[n.sink] = 0
	}
	for _, s := range direct {
		idSince[s] = 0
	}
	// every broadcast reached every healthy collector that was connected when it was added, exactly once
	check := func(s *vfSink, who string, from, to int) *vlib.Failure {
		deadline := time.Now().Add(2 * vfStallBound)
		for i := from; i < to; i++ {
			for s.count(ids[i]) == 0 && time.Now().Before(deadline) {
				time.Sleep(5 * time.Millisecond)
			}
			if n := s.count(ids[i]); n == 0 {
				return vfBlockedFractal("stall:healthy-collector-starved", fmt.Sprintf("%s did not receive broadcast task #%d of %d within %v after the last AddTask returned (hung peer connected before task #%d)", who, i+1, c.Tasks, 2*vfStallBound, c.HungAt+1))
			} else if n > 1 {
				return vlib.Failf("stall:duplicate-delivery", "%s received broadcast task #%d %d times", who, i+1, n)
			}
		}
		return nil
	}
	for i := 0; i < c.Tasks; i++ {
		if i == c.HungAt {
			before := map[uuid.UUID]bool{}
			ls.l.RLock()
			for id := range ls.collectors {
				before[id] = true
			}
			ls.l.RUnlock()
			hung, err = net.Dial("tcp", addr)
			if err != nil {
				return vlib.Failf("harness:hung-dial", "%v", err)
			}
			if tc, ok := hung.(*net.TCPConn); ok && c.SmallRcv {
				tc.SetReadBuffer(4096)
			}
			seen := false
			for k := 0; k < 10000 && !seen; k++ {
				ls.l.RLock()
				for id := range ls.collectors {
					if !before[id] {
						seen = true
					}
				}
				ls.l.RUnlock()
				if !seen {
					time.Sleep(time.Millisecond)
				}
			}
			if !seen {
				return vlib.Failf("harness:hung-subscribe", "the pool did not subscribe the silent peer (have %d collectors)", subscribed())
			}
			ctx.Label("hung-peer-connected")
		}
		if i == c.LateAt {
			s := newVfSink()
			if f := vfReturns("stall:subscribe-blocked", fmt.Sprintf("Subscribe of a further collector before task #%d", i), func() { ls.Subscribe(bg, s) }); f != nil {
				return f
			}
			direct = append(direct, s)
			idSince[s] = i
			ctx.Label("late-subscriber")
		}
		if i == c.LeaveAt && len(relays) > 0 && !relays[0].gone {
			n := relays[0]
			// what was broadcast so far must have arrived before the relay goes: later it cannot be judged
			if f := check(n.sink, "the collector behind healthy relay 0 (about to leave)", 0, i); f != nil {
				return f
			}
			if f := vfReturns("stall:stop-blocked", fmt.Sprintf("stopping a healthy relay before task #%d", i), func() { n.cancel() }); f != nil {
				return f
			}
			n.gone = true
			ctx.Label("healthy-relay-left")
		}
		req := &protocol.RequestQualities{TaskID: uuid.New(), ParentTarget: target, ParentSlot: 100, Height: uint64(i + 1)}
		ids = append(ids, req.TaskID)
		if f := vfReturns("stall:addtask-blocked", fmt.Sprintf("AddTask #%d of %d (broadcast quality task, %d KiB)", i+1, c.Tasks, c.PayloadKB), func() { ls.AddTask(bg, uuid.Nil, req) }); f != nil {
			return f
		}
		if i > 0 {
			prev := ids[i-1]
			if f := vfReturns("stall:removetask-blocked", fmt.Sprintf("RemoveTask of task #%d", i), func() { ls.RemoveTask(prev) }); f != nil {
				return f
			}
		}
		if c.Targeted > 0 && len(direct) > 0 && i%c.Targeted == c.Targeted-1 {
			s := direct[i%len(direct)]
			preq := &protocol.RequestProof{TaskID: uuid.New(), SpaceID: "x", Challenge: pocutil.Hash{byte(i)}, Index: uint32(i)}
			if f := vfReturns("stall:targeted-blocked", fmt.Sprintf("AddTask (targeted proof task to a healthy direct collector) after task #%d", i+1), func() { ls.AddTask(bg, s.id, preq) }); f != nil {
				return f
			}
			if got := s.count(preq.TaskID); got != 1 {
				return vlib.Failf("stall:targeted-not-delivered", "targeted task after task #%d reached its healthy target %d times (Send is synchronous for a local collector)", i+1, got)
			}
			ls.RemoveTask(preq.TaskID)
			tids = append(tids, preq.TaskID)
			tsinks = append(tsinks, s)
		}
	}
	for k, n := range relays {
		if n.gone {
			continue // judged right before it left
		}
		if f := check(n.sink, fmt.Sprintf("the collector behind healthy relay %d", k), 0, c.Tasks); f != nil {
			return f
		}
	}
	for k, s := range direct {
		if f := check(s, fmt.Sprintf("direct collector %d", k), idSince[s], c.Tasks); f != nil {
			return f
		}
	}
	for k, id := range tids {
		for _, s := range direct {
			if s != tsinks[k] && s.count(id) != 0 {
				return vlib.Failf("stall:targeted-leaked", "targeted task %d reached a collector that is not its target", k)
			}
		}
		for _, n := range relays {
			if n.sink.count(id) != 0 {
				return vlib.Failf("stall:targeted-leaked", "targeted task %d reached a collector behind a relay", k)
			}
		}
	}
	if f := vfReturns("stall:pool-stop-blocked", "stopping the pool", func() { poolCancel() }); f != nil {
		return f
	}
	ctx.LabelN("tasks-after-hung", c.Tasks-c.HungAt)
	if c.Tasks-c.HungAt >= 40 {
		ctx.NonTrivial()
	}
	return nil
}

var vfStallSpec = vlib.Spec[vfStallCase]{
	Prop: "C17", Name: "stalled-peer", NoShrink: true, Scale: 0.17, Min: 1,
	Rule: "a LocalSuperior with a CollectorPool on 127.0.0.1:0, 1-3 healthy relays (PersistentRemoteSuperior, one recording collector each), 0-2 recording collectors subscribed directly, and one raw TCP peer that connects before a generated task and never reads; 45-60 broadcast quality tasks of 400-700 KiB (each removed when the next is added), every n-th followed by a targeted proof task to a healthy direct collector, a late direct subscriber and a healthy relay leaving at generated tasks; oracles: AddTask, RemoveTask, Subscribe, relay stop and pool stop return (30 s bound, half the keepalive timeout after which the pool drops the silent peer itself; verdict carries the fractal goroutine stacks), every broadcast reaches every healthy collector connected at the time exactly once, targeted tasks reach the target only; non-trivial = >=40 tasks after the silent peer connected (more than its queues and socket buffers hold); distinct = distinct case JSON",
	Gen: func(t *rapid.T) vfStallCase {
		c := vfStallCase{NHealthy: rapid.IntRange(1, 3).Draw(t, "nhealthy"), NDirect: rapid.IntRange(0, 2).Draw(t, "ndirect"), HungAt: rapid.IntRange(0, 5).Draw(t, "hungAt"),
			Tasks: rapid.IntRange(45, 60).Draw(t, "tasks"), PayloadKB: rapid.IntRange(400, 700).Draw(t, "payloadKB"), LateAt: -1, LeaveAt: -1,
			Targeted: rapid.SampledFrom([]int{0, 3, 7}).Draw(t, "targeted"), SmallRcv: rapid.IntRange(0, 3).Draw(t, "smallRcv") != 0}
		if rapid.Bool().Draw(t, "late") {
			c.LateAt = rapid.IntRange(1, c.Tasks-1).Draw(t, "lateAt")
		}
		if c.NHealthy >= 2 && rapid.Bool().Draw(t, "leave") {
			c.LeaveAt = rapid.IntRange(2, c.Tasks-1).Draw(t, "leaveAt")
		}
		return c
	},
	Run: vfStallRun,
}

func TestVerif_C17(t *testing.T) {
	t.Run("topology", func(t *testing.T) { vlib.Both(t, vfC17Spec) })
	t.Run("stalled-peer", func(t *testing.T) { vlib.Both(t, vfStallSpec) })
}

func bigOne() *big.Int { return big.NewInt(1) }
