package connection

// C16 (framing part) — "decoding arbitrary bytes received from a peer ... never panics, hangs or exhausts memory":
// the receive path bounds the frame size before allocating. Generated frame sequences are written by a raw peer
// through an in-memory pipe; frames up to the receive limit must be delivered byte-exact and in order, the first
// frame announcing more than the limit must end the connection without delivering anything further.

import (
	"bytes"
	"context"
	"encoding/binary"
	"fmt"
	"net"
	"os"
	"path/filepath"
	"sync"
	"testing"
	"time"

	"github.com/massnetorg/mass-core/logging"

	"pgregory.net/rapid"
	"verif/vlib"
)

var vfOnce sync.Once

func vfSetup() {
	vfOnce.Do(func() {
		base := os.Getenv("TMPDIR")
		if base == "" {
			base = os.TempDir()
		}
		d := filepath.Join(base, fmt.Sprintf("vfconnlog-%d", os.Getpid()))
		os.MkdirAll(d, 0o755)
		logging.Init(d, "vf.log", "error", 0, true)
	})
}

type vfFrameCase struct {
	Limit  uint32   `json:"limit"`  // 0 = default (2 MiB)
	Sizes  []uint32 `json:"sizes"`  // announced sizes; 0 = control frame
	Bodies []bool   `json:"bodies"` // whether the peer actually sends the body of an oversize frame
}

func vfFrameRun(c vfFrameCase, ctx *vlib.Ctx) *vlib.Failure {
	vfSetup()
	a, b := net.Pipe()
	defer b.Close()
	opts := defaultOptions()
	opts.keepaliveInterval = 0
	opts.keepaliveTimeout = time.Hour
	opts.recvQueueSize = len(c.Sizes) + 2
	limit := uint32(defaultMaxRecvMsgSize)
	if c.Limit != 0 {
		opts.maxRecvMsgSize = c.Limit
		limit = c.Limit
	}
	conn, cancel := newConn(a, opts)
	defer cancel()
	// absorb keepalive answers the node may write
	go func() {
		buf := make([]byte, 4096)
		for {
			if _, err := b.Read(buf); err != nil {
				return
			}
		}
	}()
	var want [][]byte
	overAt := -1
	done := make(chan struct{})
	go func() {
		defer close(done)
		for i, sz := range c.Sizes {
			var hdr [4]byte
			binary.BigEndian.PutUint32(hdr[:], sz)
			b.SetWriteDeadline(time.Now().Add(20 * time.Second))
			if _, err := b.Write(hdr[:]); err != nil {
				return
			}
			if sz == 0 {
				continue
			}
			if sz > limit {
				// a hostile peer: optionally start sending a body, never all of it
				if i < len(c.Bodies) && c.Bodies[i] {
					b.SetWriteDeadline(time.Now().Add(300 * time.Millisecond))
					b.Write(bytes.Repeat([]byte{0xee}, 1024))
				}
				return
			}
			body := make([]byte, sz)
			for j := range body {
				body[j] = byte(i*31 + j)
			}
			if _, err := b.Write(body); err != nil {
				return
			}
		}
	}()
	for i, sz := range c.Sizes {
		if sz == 0 {
			continue
		}
		if sz > limit {
			overAt = i
			break
		}
		body := make([]byte, sz)
		for j := range body {
			body[j] = byte(i*31 + j)
		}
		want = append(want, body)
	}
	for i, w := range want {
		rctx, rc := context.WithTimeout(context.Background(), 30*time.Second)
		got, err := conn.Read(rctx)
		rc()
		if err != nil {
			return vlib.Failf("frame-within-limit-not-delivered", "frame %d of %d bytes (limit %d): Read: %v", i, len(w), limit, err)
		}
		if !bytes.Equal(got, w) {
			return vlib.Failf("frame-altered", "frame %d: %d bytes delivered, %d sent (or content differs)", i, len(got), len(w))
		}
	}
	if overAt >= 0 {
		// the connection must end: Read reports an error promptly and nothing more is delivered
		rctx, rc := context.WithTimeout(context.Background(), 10*time.Second)
		got, err := conn.Read(rctx)
		rc()
		if err == nil {
			return vlib.Failf("oversize-frame-delivered", "a frame announcing %d bytes (limit %d) was followed by a delivery of %d bytes", c.Sizes[overAt], limit, len(got))
		}
		if err == context.DeadlineExceeded {
			return vlib.Failf("oversize-frame-not-refused", "a frame announcing %d bytes (limit %d) did not end the connection: the receiver waits for the body (allocation before the bound check)", c.Sizes[overAt], limit)
		}
		ctx.Label("oversize-refused")
		ctx.NonTrivial()
	} else {
		ctx.Label("all-within-limit")
		for _, sz := range c.Sizes {
			if sz == limit {
				ctx.NonTrivial()
			}
		}
	}
	<-done
	return nil
}

var vfFrameSpec = vlib.Spec[vfFrameCase]{
	Prop: "C16", Name: "frame-size-bound", Scale: 0.02, Min: 40,
	Rule: "sequences of 1-5 frames written by a raw peer: sizes around the receive limit (limit-1, limit, limit+1), far above it (up to 2^32-1), small ones and control frames; configured limits 1 KiB..64 KiB or the 2 MiB default; oracle: frames within the limit are delivered byte-exact in order, the first oversize announcement ends the connection promptly (Read returns an error, nothing more is delivered, no waiting for the body); non-trivial = sequence containing an oversize frame or a frame of exactly the limit; distinct = distinct case JSON",
	Gen: func(t *rapid.T) vfFrameCase {
		c := vfFrameCase{Limit: rapid.SampledFrom([]uint32{0, 1024, 4096, 65536, 1}).Draw(t, "limit")}
		limit := c.Limit
		if limit == 0 {
			limit = defaultMaxRecvMsgSize
		}
		n := rapid.IntRange(1, 5).Draw(t, "n")
		for i := 0; i < n; i++ {
			var s uint32
			switch rapid.IntRange(0, 7).Draw(t, "kind") {
			case 0:
				s = 0
			case 1:
				s = limit
			case 2:
				s = limit - 1
			case 3:
				s = limit + 1
			case 4:
				s = rapid.SampledFrom([]uint32{1 << 26, 1<<31 - 1, 1 << 31, 1<<32 - 1, 3 << 20}).Draw(t, "huge")
			default:
				s = rapid.Uint32Range(1, 2000).Draw(t, "small")
			}
			if limit == defaultMaxRecvMsgSize && s > 1<<16 && s <= limit && i > 1 {
				s = 1 + s%4096 // keep the number of megabyte frames per case small
			}
			c.Sizes = append(c.Sizes, s)
			c.Bodies = append(c.Bodies, rapid.Bool().Draw(t, "body"))
		}
		return c
	},
	Run: vfFrameRun,
}

// ---- transit through a pair of connections ----------------------------------------------------------------------
//
// Frames of generated sizes are sent through one Conn and read from its peer Conn (net.Pipe in between): what
// arrives is what was sent, byte for byte and in order, whatever the sizes are (send and receive path together).

type vfTransitCase struct {
	Sizes []int `json:"sizes"`
	Burst bool  `json:"burst"` // all frames are queued before the reader starts reading
}

func vfTransitRun(c vfTransitCase, ctx *vlib.Ctx) *vlib.Failure {
	vfSetup()
	a, b := net.Pipe()
	mk := func(nc net.Conn) (*Conn, context.CancelFunc) {
		opts := defaultOptions()
		opts.keepaliveInterval = 0
		opts.keepaliveTimeout = time.Hour
		opts.recvQueueSize = len(c.Sizes) + 2
		opts.sendQueueSize = len(c.Sizes) + 2
		return newConn(nc, opts)
	}
	ca, cancelA := mk(a)
	cb, cancelB := mk(b)
	defer cancelA()
	defer cancelB()
	bg, cancel := context.WithTimeout(context.Background(), 60*time.Second)
	defer cancel()
	frames := make([][]byte, len(c.Sizes))
	for i, sz := range c.Sizes {
		f := make([]byte, sz)
		for j := range f {
			f[j] = byte(i*37 + j*11 + sz)
		}
		frames[i] = f
	}
	sendErr := make(chan error, 1)
	send := func() {
		for i, f := range frames {
			if err := ca.Send(bg, f); err != nil {
				sendErr <- fmt.Errorf("frame %d (%d bytes): %v", i, len(f), err)
				return
			}
		}
		sendErr <- nil
	}
	if c.Burst {
		send()
		if err := <-sendErr; err != nil {
			return vlib.Failf("send-refused", "%v", err)
		}
	} else {
		go send()
	}
	for i, w := range frames {
		got, err := cb.Read(bg)
		if err != nil {
			return vlib.Failf("frame-altered", "frame %d of %d (%d bytes; sizes %v): Read on the peer returned %v instead of the frame", i, len(frames), len(w), c.Sizes, err)
		}
		if !bytes.Equal(got, w) {
			return vlib.Failf("frame-altered", "frame %d of %d: %d bytes sent, %d bytes delivered or content differs (sizes %v)", i, len(frames), len(w), len(got), c.Sizes)
		}
	}
	if !c.Burst {
		if err := <-sendErr; err != nil {
			return vlib.Failf("send-refused", "%v", err)
		}
	}
	if len(c.Sizes) >= 2 {
		ctx.NonTrivial()
	}
	return nil
}

var vfTransitSpec = vlib.Spec[vfTransitCase]{
	Prop: "C16", Name: "frame-transit", Scale: 0.15, Min: 60,
	Rule: "1-8 frames of generated sizes (1..70000 bytes: dense around 2^k-4..2^k+4 for k=4..16 and around 1000..1050, random otherwise) sent through one Conn and read from its peer over net.Pipe, queued in a burst or interleaved with the reader; oracle: every frame arrives byte-exact and in order; non-trivial = >=2 frames; distinct = distinct case JSON",
	Gen: func(t *rapid.T) vfTransitCase {
		c := vfTransitCase{Burst: rapid.Bool().Draw(t, "burst")}
		n := rapid.IntRange(1, 8).Draw(t, "n")
		for i := 0; i < n; i++ {
			var sz int
			switch rapid.IntRange(0, 3).Draw(t, "kind") {
			case 0:
				sz = (1 << uint(rapid.IntRange(4, 16).Draw(t, "k"))) + rapid.IntRange(-4, 4).Draw(t, "d")
			case 1:
				sz = rapid.IntRange(1000, 1050).Draw(t, "near1k")
			case 2:
				sz = rapid.IntRange(1, 300).Draw(t, "small")
			default:
				sz = rapid.IntRange(1, 70000).Draw(t, "any")
			}
			c.Sizes = append(c.Sizes, sz)
		}
		return c
	},
	Run: vfTransitRun,
}

func TestVerif_C16(t *testing.T) {
	t.Run("bound", func(t *testing.T) { vlib.Both(t, vfFrameSpec) })
	t.Run("transit", func(t *testing.T) { vlib.Both(t, vfTransitSpec) })
}
