#!/usr/bin/env python3
"""Confirm a seeded change produced by an independent sub-agent and record it under /verif/seeded/<id>/.

  lib/confirm_seed.py <prop> <k> [--src /tmp/seed_out/<prop>/<k>] [--checks C02,C12] [--tier quick]

In a scratch worktree of /repo's HEAD (outside /repo and /verif) it verifies, itself:
  1. the demonstration passes on the clean tree,
  2. with patch.diff applied the tree builds and the existing tests of the touched packages (and of
     ./poc/wallet/... resp. dependents given with --also) still pass,
  3. the demonstration fails with the patch,
and then runs the named /verif checks against the patched tree (VERIF_REPO=<worktree>) and records which caught it.
"""
import argparse, json, os, re, shutil, subprocess, sys, time

VERIF = os.path.dirname(os.path.dirname(os.path.abspath(__file__)))
ENV = dict(os.environ, GOFLAGS="-mod=mod", GOPROXY="off", GOSUMDB="off", GOTOOLCHAIN="local")


def sh(cmd, cwd, timeout=3600, env=None):
    p = subprocess.run(cmd, cwd=cwd, shell=True, stdout=subprocess.PIPE, stderr=subprocess.STDOUT, text=True, env=env or ENV, timeout=timeout)
    return p.returncode, p.stdout


def main():
    ap = argparse.ArgumentParser()
    ap.add_argument("prop")
    ap.add_argument("k")
    ap.add_argument("--src")
    ap.add_argument("--checks")
    ap.add_argument("--tier", default="quick")
    ap.add_argument("--also", default="")
    ap.add_argument("--wt", default="/tmp/mut_confirm")
    ap.add_argument("--skip-confirm", action="store_true")
    a = ap.parse_args()
    src = os.path.abspath(a.src or "/tmp/seed_out/%s/%s" % (a.prop, a.k))
    sid = "%s-%s" % (a.prop, a.k)
    wt = a.wt
    head = subprocess.check_output(["git", "-C", "/repo", "rev-parse", "HEAD"], text=True).strip()
    if not os.path.isdir(wt):
        subprocess.check_call(["git", "-C", "/repo", "worktree", "add", "--detach", wt, head], stdout=subprocess.DEVNULL, stderr=subprocess.DEVNULL)
    sh("git checkout -q --detach %s && git checkout -- . && git clean -fdq" % head, wt)
    meta = json.load(open(os.path.join(src, "meta.json")))
    demo_md = open(os.path.join(src, "demo.md")).read()
    demos = [f for f in os.listdir(src) if f.endswith(".go")]
    m = re.search(r"`([\w./-]+/[\w.-]+_test\.go)`", demo_md)
    demo_target = m.group(1) if m else None
    if not demo_target:
        for cand in re.findall(r"(?<![\w/])((?:[\w.-]+/)+[\w.-]+_test\.go)", demo_md):
            if not cand.startswith(("tmp/", "/")) and "seed_out" not in cand:
                demo_target = cand
                break
    cmdm = re.search(r"^\s*(go test [^\n]*)$", demo_md, re.M) or re.search(r"`(go test [^`\n]*)`", demo_md) or re.search(r"(go test -[^\n`]*\./[\w./-]+/?)", demo_md)
    demo_cmd = cmdm.group(1).strip() if cmdm else None
    if not demo_target and demo_cmd and demos:
        pk = [w for w in demo_cmd.split() if w.startswith("./")]
        if pk:
            demo_target = os.path.join(pk[-1].strip("./").rstrip("/").replace("...", ""), demos[0]).replace("//", "/")
    if not demo_target or not demo_cmd:
        print("cannot parse demo.md: target=%s cmd=%s" % (demo_target, demo_cmd))
        sys.exit(2)
    if demo_cmd:
        # a pipe into grep/tail would hide the exit status of go test
        demo_cmd = re.split(r"\s+2>&1\s*\||\s+\|\s+", demo_cmd)[0].strip()
    if "-timeout" not in demo_cmd:
        demo_cmd = demo_cmd.replace("go test", "go test -timeout 20m", 1)
    res = dict(confirmed_at_repo_head=head)
    patch = os.path.join(src, "patch.diff")

    def place_demo():
        for d in demos:
            tgt = os.path.join(wt, os.path.dirname(demo_target), d) if len(demos) > 1 else os.path.join(wt, demo_target)
            shutil.copy(os.path.join(src, d), tgt)

    def remove_demo():
        sh("git clean -fdq", wt)

    if not a.skip_confirm:
        place_demo()
        rc, out = sh(demo_cmd, wt)
        res["demo_passes_without_patch"] = rc == 0
        if rc != 0:
            print("DEMO FAILS ON CLEAN TREE\n" + out[-3000:])
        remove_demo()
    rc, out = sh("git apply %s" % patch, wt)
    if rc != 0:
        sh("git checkout -- . && git clean -fdq", wt)
        rc, out = sh("patch -p1 -F3 --no-backup-if-mismatch < %s" % patch, wt)
    if rc != 0:
        print("PATCH DOES NOT APPLY\n" + out[-2000:])
        sys.exit(2)
    sh("git reset -q", wt)
    if not a.skip_confirm:
        rc, out = sh("go build ./...", wt)
        res["builds"] = rc == 0
        if rc != 0:
            print("BUILD FAILS\n" + out[-3000:])
        _, names = sh("git diff --name-only", wt)
        pkgs = sorted({"./" + os.path.dirname(n) for n in names.split() if n.endswith(".go")})
        extra = [x for x in a.also.split(",") if x]
        if any("poc/wallet" in p for p in pkgs):
            extra.append("./poc/wallet/...")
        if any("poc/engine" in p or "poc/engine.v2" in p for p in pkgs):
            extra += ["./poc/engine/...", "./poc/engine.v2/..."]
        if any("fractal" in p for p in pkgs):
            extra.append("./fractal/...")
        tests = sorted(set(pkgs + extra))
        rc, out = sh("go test -vet=off -count=1 -timeout 25m " + " ".join(tests), wt)
        res["existing_tests_cmd"] = "go test -vet=off -count=1 " + " ".join(tests)
        res["existing_tests_pass_with_patch"] = rc == 0
        if rc != 0:
            print("EXISTING TESTS FAIL WITH PATCH\n" + out[-3000:])
        place_demo()
        rc, out = sh(demo_cmd, wt)
        res["demo_fails_with_patch"] = rc != 0
        res["demo_cmd"] = demo_cmd
        res["demo_output_tail"] = out[-800:]
        remove_demo()
    # run checks
    checks = (a.checks or a.prop).split(",")
    det = {}
    for c in checks:
        t0 = time.time()
        env = dict(os.environ, VERIF_REPO=wt)
        p = subprocess.run([os.path.join(VERIF, "check"), c, "--tier", a.tier], cwd=VERIF, env=env, stdout=subprocess.PIPE, stderr=subprocess.PIPE, text=True)
        sigs = re.findall(r"sig=(\S+)", p.stderr)
        det[c] = dict(exit=p.returncode, violation_lines=[l for l in p.stdout.splitlines() if l.startswith("VIOLATION")], sigs=sorted(set(sigs)), wall_s=round(time.time() - t0, 1), tier=a.tier)
        print("check %s on seeded %s: exit=%d sigs=%s (%.0fs)" % (c, sid, p.returncode, sorted(set(sigs)), time.time() - t0))
        if p.returncode == 2:
            print(p.stderr[-2500:])
    sh("git checkout -- . && git clean -fdq", wt)
    # evidence files were rewritten by the runs against the seeded tree: restore the committed ones
    subprocess.run("git checkout -- evidence 2>/dev/null; git clean -fdq replays", cwd=VERIF, shell=True)
    res["detection"] = det
    ok = a.skip_confirm or (res.get("demo_passes_without_patch") and res.get("builds") and res.get("existing_tests_pass_with_patch") and res.get("demo_fails_with_patch"))
    res["confirmed"] = bool(ok)
    print("confirmed=%s" % ok)
    if ok:
        dst = os.path.join(VERIF, "seeded", sid)
        os.makedirs(dst, exist_ok=True)
        for f in os.listdir(src):
            if os.path.abspath(src) == os.path.abspath(dst):
                break
            shutil.copy(os.path.join(src, f), os.path.join(dst, f))
        old = {}
        mp = os.path.join(dst, "meta.json")
        meta["breaks_property"] = a.prop
        prev = os.path.join(dst, "confirmation.json")
        if os.path.exists(prev) and a.skip_confirm:
            old = json.load(open(prev))
            old["detection"].update(det)
            res = old
        json.dump(meta, open(mp, "w"), indent=1)
        json.dump(res, open(prev, "w"), indent=1)


if __name__ == "__main__":
    main()
