# Per-property configuration of the driver (see DESIGN.md §4.0).
# checks = total rapid case budget (split over shards); timeout = per-shard backstop in seconds.

PROPS = {
    "C19": dict(
        pkgs=["poc/wallet/db/ldb"], level="exploration",
        quick=dict(checks=1600, shards=16, timeout=300),
        thorough=dict(checks=40000, shards=16, timeout=1500),
        technique="property-based testing: rapid-generated transaction programs vs. reference model (tree of maps with per-transaction shadow), full-dump oracle",
        level_text="Generated histories of bucket/key operations with adversarial names and keys, commit/rollback/reopen points, compared step by step and by full dump with an independent tree-of-maps model; exploration, not a proof: bounded program length (<=8 transactions x 14 ops) and a fixed adversarial alphabet plus random bytes.",
        level_note="Trusted: goleveldb transaction atomicity; the model in harness/poc/wallet/db/ldb/zz_verif_c19_test.go; single writer.",
        assumptions=["LevelDB (goleveldb) transactions are the trusted unit of atomicity", "one write transaction at a time (goleveldb serialises OpenTransaction)"],
    ),
}

KS = "poc/wallet/keystore"
PROPS["C02"] = dict(
    pkgs=[KS], level="exploration", death_is_violation=True,
    quick=dict(checks=480, shards=16, timeout=400),
    thorough=dict(checks=16000, shards=16, timeout=2400),
    technique="property-based testing: rapid-generated wallet histories with restarts vs. reference model of the observable wallet state",
    level_text="Generated operation histories (two wallets, restarts after any prefix, wrong-public-passphrase opens) are compared after every step with an explicit reference model of keystores, remarks, per-index keys, counters, ordinals and passphrase behaviour. Exploration with bounded history length (<=29 ops), not a proof.",
    level_note="Trusted: the reference model in harness/poc/wallet/keystore/zz_verif_wallet_test.go; scrypt cost lowered in-package (N=16) - key derivation logic unchanged; goleveldb durability.",
    assumptions=["scrypt N lowered to 16 through the package's own secretKeyGen seam", "keys are compared for stability, their BIP32 correctness is C18's subject"],
)

PROPS["C03"] = dict(
    pkgs=[KS], level="exploration", death_is_violation=True,
    quick=dict(checks=480, shards=16, timeout=400),
    thorough=dict(checks=16000, shards=16, timeout=2400),
    technique="property-based testing: rapid-generated wallet histories with adversarial passphrase arguments vs. reference model, plus in-package inspection of secret fields after every step",
    level_text="Generated histories where every passphrase argument is current/superseded/public/other/ill-formed; the model predicts which privileged calls may succeed; after every step lock flags must be all-or-nothing and a locked keystore is inspected in-package for private keys, private crypto key, passphrase hash and a master key that still opens the private crypto key. Exploration, bounded history length.",
    level_note="Trusted: reference model; the in-package inspection reads the fields named in the property anchors (a refactoring that moves secrets to new fields needs the inspector updated). scrypt N=16.",
    assumptions=["secrets are inspected in the fields of AddrManager/ManagedAddress that exist on the pinned tree", "Go garbage (already dropped copies) is out of scope"],
)
PROPS["C05"] = dict(
    pkgs=[KS, "poc/engine/spacekeeper/capacity"], level="exploration", death_is_violation=True,
    quick=dict(checks=400, shards=16, timeout=400),
    thorough=dict(checks=12000, shards=16, timeout=2400),
    technique="property-based testing: rapid-generated wallet histories, signatures judged by the chain library's pocec verification (independent of the wallet's VerifySig)",
    level_text="Every signature produced in generated histories (keys issued locked/unlocked, both branches, after restart/import/passphrase change) is verified with mass-core pocec under exactly the requested key and digest and must not verify under any other issued key; locked / foreign / malformed requests must fail. Exploration.",
    level_note="Trusted: mass-core pocec Signature.Verify and wire.HashH as the verification authority; reference model.",
    assumptions=["keeper path SpaceKeeper.SignHash is exercised in the capacity harness (C06/C15) only as pass-through"],
)
PROPS["C01"] = dict(
    pkgs=[KS], level="exploration", death_is_violation=True,
    quick=dict(checks=480, shards=16, timeout=400),
    thorough=dict(checks=16000, shards=16, timeout=2400),
    technique="property-based testing: rapid-generated export/delete/import histories across two wallets, round-trip oracle against a reference model, single-field corruption of the export file (per-history and as a dense sweep of 16 corruptions per export over the fields the importer verifies byte for byte)",
    level_text="Round trip export->import (same wallet after delete, other wallet) over generated histories is compared key by key with the model; rejected imports (wrong passphrase, present keystore, tampered file) must leave both wallets equal to the model; all restored keys must sign after unlock. Exploration with bounded history length and one corruption per import; corruptions of crypto.privParams, cryptoKeyPrivEnc and masterHDPrivKeyEnc (other than a swap with another export) must be rejected outright, for the other fields the verdict is taken on the restored keystore.",
    level_note="Trusted: reference model; pocec verification. Corruptions of unauthenticated fields are classified per field (see known_findings.json).",
    assumptions=["child counts are corrupted by at most +-8 so that a hostile count cannot stall the run"],
)

PROPS["C12"] = dict(
    pkgs=[KS], level="fault_enumeration", exhaustive=True, death_is_violation=True,
    quick=dict(checks=96, shards=16, timeout=500),
    thorough=dict(checks=3200, shards=16, timeout=2400),
    technique="fault enumeration driven by property-based generation: rapid generates the history and target operation; every bucket write and commit of the target is failed/crashed through a fault-injecting db.DB wrapper; oracle = full reference-model equality before/after; after a reported storage error the target is retried without fault on the running instance and judged there and after restart",
    level_text="Per generated history the fault space of the target operation (each write x error, each commit x {error, crash before, crash after}) is enumerated completely; histories and targets are sampled. The store transaction is the unit of durability (goleveldb trusted).",
    level_note="Trusted: goleveldb transaction atomicity (a discarded transaction leaves nothing, a committed one is durable); the fault wrapper in zz_verif_c12_test.go; read-path faults are outside the property's fault list and are not injected.",
    assumptions=["crash = transaction discarded (before commit) or committed (after commit), then the manager is dropped and the store reopened", "exhaustive refers to the fault points of the target operation of each generated history, not to the space of histories"],
)

PROPS["C04"] = dict(
    pkgs=[KS, "api"], level="exploration", death_is_violation=True, env={"VERIF_LOGLEVEL": "trace"},
    quick=dict(checks=240, shards=16, timeout=500),
    thorough=dict(checks=6000, shards=16, timeout=2400),
    technique="property-based testing: rapid-generated wallet histories; byte search of store files, logical store dump, exports and trace-level logs for secrets collected in-package, with positive control and decrypt-chain oracle; the API server's wallet handlers (api/wallets.go) driven on a real manager with debug logging and the same scan of log, export and store files",
    level_text="After every step of generated histories every artefact the property names (store bytes, exports, logs) is searched for every secret that exists at that moment, in the encodings a careless write would produce; the scanner is validated by a positive control in the same run. Exploration: finds leaks of the searched encodings only.",
    level_note="Trusted: the list of encodings searched (raw, hex, HEX, Go %v, decimal, base58 xprv); secrets are collected from the in-memory fields of the pinned tree and recomputed from seeds with the package's own derivation; secretbox/scrypt assumed sound.",
    assumptions=["a leak in an encoding outside the searched set (e.g. base64, compressed) would be missed", "log output is captured through the node's logging package at trace level into a scratch directory"],
)

PROPS["C14"] = dict(
    pkgs=[KS], level="exploration", race=True, death_is_violation=True, engine="rapid-harness+race-detector+porcupine",
    quick=dict(checks=640, shards=16, timeout=500),
    thorough=dict(checks=24000, shards=16, timeout=2400),
    technique="property-based generation of concurrent programs; oracles: Go race detector (reports attributed to repository frames), porcupine linearizability checker against a sequential wallet model, reopen equality",
    level_text="Randomly generated concurrent programs are executed for real (no schedule control inside the wallet's mutexes); data races are found when both accesses occur in a run (not only when they collide), atomicity violations when the recorded history has no linearization. Exploration: interleavings are sampled, not enumerated.",
    level_note="Trusted: the Go race detector, porcupine, the sequential model in zz_verif_c14_test.go. Races inside mass-core's logging package (both frames foreign) are counted and ignored.",
    assumptions=["the harness does not own the schedule; GOMAXPROCS and yields are varied", "redundant Unlock on an unlocked wallet may fail (unspecified by the properties)"],
)

PROPS["C06"] = dict(
    pkgs=[KS, "poc/engine/spacekeeper/capacity"], race_pkgs=[KS], level="exploration", death_is_violation=True, engine="rapid-harness+race-detector",
    quick=dict(checks=480, shards=12, timeout=500, race_checks=320, race_shards=8),
    thorough=dict(checks=16000, shards=16, timeout=2400, race_checks=12000, race_shards=16),
    technique="property-based testing: rapid-generated issuance histories (including single requests for 60-140 addresses, so that child indices pass 95) vs. reference model of ordinals; generated concurrent issuance bursts under the race detector with a multiset oracle on ordinals",
    level_text="Sequential histories are compared with a model (new key, ordinal = index in the owning keystore, consecutive, stable across restart/import); concurrent bursts must yield per keystore exactly the ordinals {0..n-1} with distinct keys. Exploration; interleavings inside the wallet are sampled.",
    level_note="Trusted: reference model; race detector. The keeper-side clause (plot file names recognised after restart) is exercised in the capacity harness as part of this check when available.",
    assumptions=["a keystore deleted and re-created from the same seed legitimately re-issues the same keys (HD derivation); 'never returned before' is judged per keystore lifetime"],
)

PROPS["C18"] = dict(
    pkgs=["poc/wallet/keystore/hdkeychain", KS], level="exploration",
    quick=dict(checks=2400, shards=16, timeout=500),
    thorough=dict(checks=30000, shards=16, timeout=3000),
    technique="differential property-based testing against an independent BIP32/BIP39 reference (own secp256k1 in math/big) that validates itself on the published BIP32 test vectors 1-4 at start-up",
    level_text="Generated seeds and paths (biased towards parents with leading-zero private keys and edge indices) are derived with the repository code and with a self-validated reference; strings, keys, public/private agreement and text round trips are compared at every node; the wallet's own path and the mnemonic packing are compared likewise. Exploration.",
    level_note="Trusted: the reference in harness/vlib/bip32ref.go (validated against the published BIP32 vectors in every run), Go's crypto/hmac, sha512, sha256, ripemd160.",
    assumptions=["the BIP39 word lists themselves are taken as data from the repository"],
)

PROPS["C16"] = dict(
    pkgs=["fractal/protocol", "fractal/connection"], level="exploration", death_is_violation=True,
    quick=dict(checks=6000, shards=8, timeout=500),
    thorough=dict(checks=240000, shards=16, timeout=2400, fuzz_seconds=240),
    fuzz=dict(pkg="fractal/protocol", target="FuzzVerif_C16", workers=8,
              rule="[native-fuzz] go test -fuzz (coverage guided, thorough tier only) over byte strings, corpus = valid encodings of all six types and hostile constants with every type prefix; same oracle as hostile-bytes; evaluations = executions, non-trivial = inputs that increased coverage"),
    technique="property-based testing: round trip of generated messages of all six types; totality on arbitrary bytes and structure-aware JSON mutations with recover-inside-property; re-encode fixed point; measured allocation bound at the receive limit; thorough tier: Go native coverage-guided fuzzing (go test -fuzz) of DecodeMessage with the same oracle",
    level_text="Generated message values must survive Encode/Decode on every wire field; hostile inputs (random bytes, one structural mutation of a valid encoding, oversized inputs up to 2 MiB) must yield a message or an error, never a panic, and accepted inputs must be well-formed (re-encodable fixed point). Exploration.",
    level_note="Trusted: mass-core chiapos (BLS element parsing through cgo) is part of the decoded path and is exercised, not modelled; encoding/json.",
    assumptions=["equality is judged on the fields that travel on the wire (WorkSpaceProof.Ordinal/Error are not transmitted)"],
)

PROPS["C20"] = dict(
    pkgs=["api"], level="exploration",
    quick=dict(checks=8000, shards=8, timeout=500),
    thorough=dict(checks=400000, shards=16, timeout=2400),
    technique="property-based testing: reference decision (net/netip) for the allow-list through the real 403 wrapper with httptest; chain-library oracle for binding targets and addresses; independent integer formatter and round trip for amounts",
    level_text="Generated remote addresses / whitelist / LAN settings are pushed through accessControlHandler and judged by a decision function written from the statement (direction: served => allowed); listed workspaces are compared with massutil's binding-target functions; amounts with an independent formatter, the canonical pattern and the round trip. Exploration.",
    level_note="Trusted: net/netip parsing as the meaning of 'remote address'; mass-core massutil as the authority for binding targets and address encoding; math/big.",
    assumptions=["gRPC loopback-only listening (api/server.go) is a constant and is not exercised", "non-plain parser inputs (signs, empty parts) are reported as labels only: the statement covers rendered amounts"],
)

MDB = "poc/engine/massdb/massdb.v1"
PROPS["C07"] = dict(
    pkgs=[MDB], level="exploration",
    quick=dict(checks=480, shards=16, timeout=600),
    thorough=dict(checks=6400, shards=16, timeout=2400),
    technique="property-based testing on a scale model: generated keys, bit lengths and window configurations are plotted with the real code (hook H1 caps the cache); validity oracle from the chain library, completeness against an independent reference construction, metamorphic window-independence",
    level_text="Real CreateDB/Plot/prePlotWork/plotWork runs at bit lengths 8-16 with generated multi-window configurations; every entry is validated with pocutil P/F, completeness is judged against a windowless reference, and two window configurations must give byte-identical tables. Exploration on a scale model.",
    level_note="Trusted: mass-core pocutil (P, F, FlipValue, RecordSize) as the definition of the construction; the reference table builder in zz_verif_plot_test.go. Assumption: the passes are parametric in the bit length (supported sizes 24-40 differ only in scale); x=0 cannot be stored (zero = empty) by construction.",
    assumptions=["scale model: bit lengths 8..16 instead of 24..40 (one BL=24 plot in the thorough tier)", "window caps below 2 records (A) / 1 pair (B) are outside the code's precondition (production minimum is 256 MiB) and are not generated"],
)

PROPS["C10"] = dict(
    pkgs=[MDB], level="fault_enumeration",
    quick=dict(checks=320, shards=16, timeout=600),
    thorough=dict(checks=6400, shards=16, timeout=2400),
    technique="interruption enumeration driven by property-based generation: graceful StopPlot at every named point of both passes (hook H2), resume with other window sizes, judged against an independent reference table; abrupt crashes enumerated from a syscall trace",
    level_text="Generated configurations (key, bit length, window caps per run) are interrupted at generated named points of both passes, re-opened, judged (plotted => complete, progress covered by final data) and resumed to completion; non-termination of a resume is a deterministic verdict from non-advancing window events.",
    level_note="Trusted: mass-core pocutil; the reference construction; hook H2 placement for graceful stops (crash points do not rely on it: they come from the kernel-level trace).",
    exhaustive=True, engine="rapid-harness+strace-crash-enum",
    assumptions=["scale model bit lengths 8..14 (crash enumeration 8..12)", "a graceful stop takes effect at the next stop check of the plotting loop (start of a scan or inside the cache write-out)",
                 "crash model: per file everything up to its last fsync is durable, later writes may be lost individually or torn in half; unlink is ordered after earlier fsyncs; creation of the space (header writes of CreateDB) is taken as durable",
                 "exhaustive refers to the crash states of each generated configuration, not to the space of configurations"],
)

CAP = "poc/engine/spacekeeper/capacity"
PROPS["C15"] = dict(
    pkgs=[CAP], level="exploration", death_is_violation=True,
    quick=dict(checks=320, shards=16, timeout=600),
    thorough=dict(checks=6400, shards=16, timeout=2400),
    technique="property-based testing: rapid-generated reconfiguration histories on real directories, header-only plot files and a real wallet; arithmetic oracle on the selection, directory diff, restart re-index",
    level_text="Generated sequences of ConfigureBySize/ByPath/ByBitLength/ByFlags, remove/delete and restarts; after each the selection is judged arithmetically (<= request, shortfall < smallest plot), reuse-before-create, placement of new files, exact counts; rejected requests must leave directories and wallet counters untouched; a second keeper must re-index the same spaces. Exploration.",
    level_note="Trusted: mass-core PlotSize; gopsutil free-space readings (the reject path asks for free space + delta).",
    assumptions=["plot files are created header-only (massdb.v1 does not pre-allocate), so sizes up to a few GiB are cheap", "bit lengths for ByBitLength limited to 24..32"],
)

PROPS["C11"] = dict(
    pkgs=[CAP], level="exploration", death_is_violation=True,
    quick=dict(checks=480, shards=16, timeout=600),
    thorough=dict(checks=9600, shards=16, timeout=2400),
    technique="property-based testing: generated plot-directory contents (real massdb.v1 files with one mutation each) judged by an independent classifier; generated remove/delete histories with directory diff before/after every operation; concurrent remove/delete against mine/stop pairs judged against the two sequential orders",
    level_text="A keeper constructed on generated directories must index exactly what an independent header parser/classifier accepts (once each, right state); generated single and bulk remove/delete actions on spaces in every state must be refused while plotting/mining and erase exactly the space's files otherwise. Exploration.",
    level_note="Trusted: the classifier in zz_verif_c11_test.go (written from the file-format comment in hashmap.go and the statement); plotting state is forced white-box (the guard logic is under test, not the plotter).",
    assumptions=["file names are judged in the canonical lower-case form the node writes itself", "progress is fabricated by writing checkpoints into headers (no table data is needed for indexing)"],
)

SKC = "poc/engine.v2/spacekeeper/skchia"

PROPS["C09"] = dict(
    pkgs=[CAP, SKC], level="exploration", death_is_violation=True, engine="rapid-harness+gate-scheduler",
    quick=dict(checks=4800, shards=16, timeout=600),
    thorough=dict(checks=80000, shards=16, timeout=2400),
    technique="stateful property-based testing with an owned schedule: rapid generates sequences of API actions, plotter gate releases (hook H3) and scripted plot outcomes; invariants and the documented transition relation are checked under the state lock after every step; concurrent two-caller action pairs judged against the two sequential orders; the chia keeper (skchia) instantiated on a scripted chia backend with provoked start/stop-all schedules",
    level_text="The plotter goroutine is parked at every step until the generated schedule releases it, plots are scripted (complete/abort), so the interleavings of requests with plotter steps are explored systematically by generation rather than left to the Go scheduler; every observation is judged against invariants and the documented transition table. Exploration over schedules of <=22 steps and <=3 spaces.",
    level_note="Trusted: the scripted plot-DB backend mirrors MassDBV1's contract (Plot blocks until outcome or stop, StopPlot waits, Delete refuses while plotting); the model in zz_verif_c09_test.go. The chia keeper (skchia) is instantiated on a scripted chia backend without gates (no hooks in that package): only ready/mining are reachable there.",
    assumptions=["requests queued at the moment the keeper is stopped may be dropped or kept (unspecified): the model accepts both", "skchia is not instantiated by this check"],
)

PROPS["C13"] = dict(
    pkgs=[CAP, MDB, "poc/engine", SKC, "poc/engine.v2"], level="exploration", death_is_violation=True, engine="rapid-harness+gate-scheduler",
    quick=dict(checks=640, shards=16, timeout=900),
    thorough=dict(checks=12000, shards=16, timeout=2400),
    technique="property-based generation of concurrent programs against the keeper (scripted plot backend, plotter gates H3) and against a held real massdb.v1 plot (H2); verdicts from 'everything released, still pending' plus goroutine stacks, recover in callers, process-death attribution; writers/readers/cancellation programs on the proof and quality hand-over types (engine, engine.v2); concurrent programs, reader floods and stop/start cycles on the chia keeper",
    level_text="Generated concurrent callers, floods around the 1024-slot hand-off channel, keeper stop/start cycles and a stop inside the popped-but-not-yet-plotting window; a call that is still pending after every plot has an outcome and all gates are open is reported with the stacks of the blocked keeper goroutines. Exploration; interleavings inside the callers are sampled.",
    level_note="Trusted: scripted backend contract; watchdog of 15 s only in combination with stack evidence; goroutine baseline comparison.",
    assumptions=["liveness is decided as 'did not return although nothing it could wait for is outstanding'", "skchia is not instantiated"],
)

PROPS["C08"] = dict(
    pkgs=["poc/engine/pocminer/miner"], level="exploration", death_is_violation=True,
    quick=dict(checks=32, shards=16, timeout=900),
    thorough=dict(checks=320, shards=16, timeout=3000),
    technique="property-based generation of chain templates, proof sets, target functions and tip/stop events for started miners running in real time against scripted Chain/SyncManager/SpaceKeeper; content-based reference of the slot decision over real BL=24 fixture proofs (re-verified on load)",
    level_text="Generated rounds are run by the real generateBlocks loop (8-12 miners concurrently per case); every block handed to ProcessBlock is compared with a reference decision recomputed from the offered proofs and the scripted target function; time is used one-sidedly only. Exploration; the interleaving of the stale monitor with the slot loop is sampled, not scheduled.",
    level_note="Trusted: mass-core proof verification and quality arithmetic, header signature verification; the fixture (re-verified on every load).",
    assumptions=["abandonment is judged only for rounds whose first eligible slot was at least two slots out of reach when the tip/stop arrived", "completeness is judged by the miner's own request for the next template, never by a timeout", "replays re-resolve template times against the wall clock"],
)

PROPS["C17"] = dict(
    pkgs=["fractal"], level="exploration", death_is_violation=True,
    quick=dict(checks=96, shards=16, timeout=900),
    thorough=dict(checks=1600, shards=16, timeout=2400),
    technique="property-based generation of cluster topologies and task histories run in-process (real TCP on loopback for the relay); delivery oracle on the content produced by scripted keepers; stop/remove verdicts with goroutine stacks; generated loss of the relay uplink (TCP forwarder cut) with and without waiting for the relay's redial; generated histories of 45-60 large broadcasts with one pool peer that never reads its connection (AddTask/RemoveTask/Subscribe/stop must return, healthy collectors must be served)",
    level_text="Generated topologies (local collectors, pool + relay + collectors behind it) and task histories are run for real; oracles are content based (which keeper served which task, what arrived on which task channel, tagged with which collector) plus 'call did not return' verdicts backed by stacks. Real time (750 ms collector ticker) bounds the number of cases. Exploration; subscribe-during-broadcast interleavings are not scheduled.",
    level_note="Trusted: scripted keeper; mass-core difficulty function (targets are chosen so low that every quality passes). No hooks are added to fractal (they would have to rewrite lines), so interleavings inside its goroutines are sampled.",
    assumptions=["upper time bounds are never verdicts, except the real waiter's own 5 s bound for targeted reports on an otherwise idle loopback topology", "exactly-once is judged in sequenced histories only"],
)

META = dict(
    na_default="check not built yet in this session (work in progress; see DESIGN.md §4) - not a claim that the technique cannot apply",
    hooks=dict(guard="verif", enable="go test -tags verif (the driver ./check always builds with -tags verif through -overlay/-modfile, see DESIGN.md §2.2)",
               baseline_off_cmd="cd /repo && go test -vet=off -count=1 -timeout 25m ./...", source_commits=["cc60ee4", "9621cb3", "6acbfa3"], add_only=True),
    engines=[
        dict(name="rapid-harness", path="check", serves_properties=[], kind_free_text="python driver + in-package Go harness files (harness/**/zz_verif_*_test.go) injected with go test -overlay; pgregory.net/rapid v1.3.0 generates and shrinks; plain-JSON replays"),
    ],
    notes="All checks: ./check Cnn --tier quick|thorough; exit 0 held / 1 VIOLATION / 2 inconclusive. Evidence is written by the driver from counters measured inside the harness processes. known_findings.json lists recorded defects and fixed ones.",
)
