# Per-property configuration of the driver (see DESIGN.md §4.0).
# checks = total rapid case budget (split over shards); timeout = per-shard backstop in seconds.

PROPS = {
    "C19": dict(
        pkgs=["poc/wallet/db/ldb"], level="exploration",
        quick=dict(checks=1600, shards=16, timeout=300),
        thorough=dict(checks=40000, shards=16, timeout=1500),
        technique="property-based testing: rapid-generated transaction programs vs. reference model (tree of maps with per-transaction shadow), full-dump oracle",
        level_text="Generated histories of bucket/key operations with adversarial names and keys, commit/rollback/reopen points, compared step by step and by full dump with an independent tree-of-maps model; exploration, not a proof: bounded program length (<=8 transactions x 14 ops) and a fixed adversarial alphabet plus random bytes.",
        level_note="Trusted: goleveldb transaction atomicity; the model in harness/poc/wallet/db/ldb/zz_verif_c19_test.go; single writer.",
        assumptions=["LevelDB (goleveldb) transactions are the trusted unit of atomicity", "one write transaction at a time (goleveldb serialises OpenTransaction)"],
    ),
}

META = dict(
    na_default="check not built yet in this session (work in progress; see DESIGN.md §4) - not a claim that the technique cannot apply",
    hooks=dict(guard="verif", enable="go test -tags verif (the driver ./check always builds with -tags verif through -overlay/-modfile, see DESIGN.md §2.2)",
               baseline_off_cmd="cd /repo && go test -vet=off -count=1 -timeout 25m ./...", source_commits=[], add_only=True),
    engines=[
        dict(name="rapid-harness", path="check", serves_properties=[], kind_free_text="python driver + in-package Go harness files (harness/**/zz_verif_*_test.go) injected with go test -overlay; pgregory.net/rapid v1.3.0 generates and shrinks; plain-JSON replays"),
    ],
    notes="All checks: ./check Cnn --tier quick|thorough; exit 0 held / 1 VIOLATION / 2 inconclusive. Evidence is written by the driver from counters measured inside the harness processes. known_findings.json lists recorded defects and fixed ones.",
)
