#!/bin/bash
# Regenerates harness/fixtures/c08_proofs.json (about 3 minutes: six BL=24 plots with the repository's plotter).
set -e
cd /verif
W=/verif/.work/fixture-$$
mkdir -p $W
python3 - "$W" <<'PY'
import sys, os
sys.path.insert(0, '/verif/lib')
import importlib.util
spec = importlib.util.spec_from_file_location('check', '/verif/check')
PY
export GOFLAGS=-mod=mod GOPROXY=off GOSUMDB=off GOTOOLCHAIN=local
python3 -c "
import sys,types,importlib.machinery
loader=importlib.machinery.SourceFileLoader('check','/verif/check'); m=types.ModuleType('check'); m.__file__='/verif/check'
sys.argv=['check']; 
src=open('/verif/check').read().replace('if __name__ == \"__main__\":\n    main()','')
exec(compile(src,'/verif/check','exec'), m.__dict__)
w=m.Work('fixture'); m.prepare_mod(w); b=m.build(w,'poc/engine/massdb/massdb.v1'); print(b)
" | tail -1 > $W/bin
BIN=$(cat $W/bin)
VERIF_GEN_FIXTURE=/verif/harness/fixtures/c08_proofs.json TMPDIR=/dev/shm $BIN -test.run '^TestVerifGen_C08Fixture$' -test.v -test.timeout 30m | tail -5
rm -rf $W /verif/.work/fixture-*
