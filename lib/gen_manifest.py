#!/usr/bin/env python3
"""Regenerates MANIFEST.json from lib/props.py (claimed checks) — run after editing props.py."""
import json, os, sys
sys.path.insert(0, os.path.dirname(os.path.abspath(__file__)))
from props import PROPS, META

VERIF = os.path.dirname(os.path.dirname(os.path.abspath(__file__)))
ids = [json.loads(l)["id"] for l in open(os.path.join(VERIF, "properties.jsonl"))]
checks, na = [], []
for pid in ids:
    if pid in PROPS and not PROPS[pid].get("unclaimed"):
        c = PROPS[pid]
        checks.append(dict(
            property_id=pid,
            quick_cmd="./check %s --tier quick" % pid,
            thorough_cmd="./check %s --tier thorough" % pid,
            evidence_file="evidence/%s.json" % pid,
            replay_cmd_template="./check %s --replay {path}" % pid,
            engine=c.get("engine", "rapid-harness"),
            level_claimed=dict(category=c.get("level", "exploration"), text=c["level_text"], design_ref=c.get("design_ref", "DESIGN.md §4 " + pid)),
            level_note=c["level_note"],
            technique=c["technique"],
        ))
    else:
        na.append(dict(property_id=pid, reason=(PROPS.get(pid) or {}).get("unclaimed") or META["na_default"]))
m = dict(version=1, setup_cmd="./check --setup", hooks=META["hooks"], engines=META["engines"], checks=checks, notes=META["notes"], not_applicable=na)
json.dump(m, open(os.path.join(VERIF, "MANIFEST.json"), "w"), indent=1)
print("claimed:", [c["property_id"] for c in checks], "not claimed:", [n["property_id"] for n in na])
