#!/usr/bin/env python3
"""Print the markdown table of seeded changes (seeded/*/meta.json + confirmation.json) for DESIGN.md section 8.6."""
import json, os, re, sys
V = os.path.dirname(os.path.dirname(os.path.abspath(__file__)))
rows = []
for d in sorted(os.listdir(os.path.join(V, "seeded")), key=lambda x: (x.split("-")[0], int(x.split("-")[1]))):
    p = os.path.join(V, "seeded", d)
    try:
        meta = json.load(open(os.path.join(p, "meta.json")))
        conf = json.load(open(os.path.join(p, "confirmation.json")))
    except Exception as e:
        continue
    det = conf.get("detection", {})
    caught = []
    missed = []
    for chk, r in det.items():
        if r.get("exit") == 1:
            caught.append("%s (%s)" % (chk, ", ".join(s for s in r.get("sigs", [])[:2])))
        else:
            missed.append(chk)
    summ = re.sub(r"\s+", " ", meta.get("summary", ""))
    if len(summ) > 170:
        summ = summ[:167] + "..."
    note = ""
    if conf.get("superseded_at"):
        note = " *(superseded by repair %s)*" % conf["superseded_at"]
    rows.append("| %s | %s%s | %s | %s |" % (d, summ.replace("|", "/"), note, "; ".join(caught) or "—", ", ".join(missed) or ""))
print("| seed | change | caught by (signatures) | quiet checks that were also run |")
print("|------|--------|------------------------|---------------------------------|")
print("\n".join(rows))
n = len(rows)
c = sum(1 for r in rows if "| — |" not in r)
print("\n%d seeded changes, %d reported by at least one check." % (n, c))
